(* C07 — property statements only. *)
From Coq Require Import List ZArith Reals.
From UV Require Import Num M_sgd M_sgdg T_sgd T_sgdg.
Import ListNotations.
Local Open Scope R_scope.

(* the attractive and repulsive coefficients are the UMAP gradient terms, with d = sqrt(d2) *)
Theorem C07_step : forall a b gamma d2, 0 < d2 ->
  attr_coeff RNum a b d2 = - 2 * a * b * Rpower (sqrt d2) (2 * b - 2) / (1 + a * Rpower (sqrt d2) (2 * b)) /\
  rep_coeff RNum a b gamma d2 = 2 * gamma * b / ((/ 1000 + d2) * (1 + a * Rpower (sqrt d2) (2 * b))).
Proof. intros a b gamma d2 H. split; [exact (attr_coeff_formula a b d2 H) | exact (rep_coeff_formula a b gamma d2 H)]. Qed.
Print Assumptions C07_step.

(* attraction pulls (coefficient <= 0), repulsion pushes (coefficient > 0) *)
Theorem C07_signs : forall a b gamma d2, 0 <= a -> 0 < b -> 0 < gamma ->
  attr_coeff RNum a b d2 <= 0 /\ (0 < d2 -> 0 < rep_coeff RNum a b gamma d2).
Proof. exact coeff_signs. Qed.
Print Assumptions C07_signs.

(* every coordinate update made by the kernel is c + clip(.) * alpha and moves c by at most 4 |alpha|:
   head move and mirrored tail move of the attractive step, and each negative-sample move *)
Theorem C07_clip : forall gc alpha cur oth, length cur = length oth ->
  Forall2 (fun c c' => Rabs (c' - c) <= 4 * Rabs alpha) cur
    (map2 RNum (fun c gd => c + gd * alpha) cur (map2 RNum (fun c o => clip RNum (gc * (c - o))) cur oth)) /\
  Forall2 (fun o o' => Rabs (o' - o) <= 4 * Rabs alpha) oth
    (map2 RNum (fun o gd => o + (- gd) * alpha) oth (map2 RNum (fun c o => clip RNum (gc * (c - o))) cur oth)) /\
  Forall2 (fun c c' => Rabs (c' - c) <= 4 * Rabs alpha) cur
    (map2 RNum (fun c o => c + (if Rltb 0 gc then clip RNum (gc * (c - o)) else 0) * alpha) cur oth).
Proof. intros gc alpha cur oth H. split; [exact (attract_moves_bounded gc alpha cur oth H) | split;
  [exact (tail_moves_bounded gc alpha cur oth H) | exact (repel_moves_bounded gc alpha cur oth H)]]. Qed.
Print Assumptions C07_clip.

(* learning rate: alpha0 in epoch 0, then alpha0 * (1 - (n-1)/N): linear decay, within [0, alpha0] *)
Theorem C07_alpha : forall alpha0 N n, 0 <= alpha0 -> (0 <= n < N)%Z ->
  0 <= alpha_of RNum alpha0 N n <= alpha0 /\
  ((1 <= n)%Z -> alpha_of RNum alpha0 N n = alpha0 * (1 - IZR (n - 1) / IZR N)) /\
  alpha_of RNum alpha0 N 0 = alpha0.
Proof. intros alpha0 N n Ha Hn. split; [exact (alpha_range alpha0 N n Ha Hn) | split;
  [exact (alpha_linear alpha0 N n) | exact (alpha_first alpha0 N)]]. Qed.
Print Assumptions C07_alpha.

(* with move_other = false the reference layout is never written, for every graph, schedule and epoch count *)
Theorem C07_frame : forall a b gamma nv alpha0 nepochs es fuel n s,
  eT RNum (s_emb RNum (run_from RNum a b gamma alpha0 false nv nepochs es fuel n s)) = eT RNum (s_emb RNum s).
Proof. exact tail_frame. Qed.
Print Assumptions C07_frame.

(* an edge is visited in epoch n exactly when its clock is due (<= n), and the clock then advances by its period *)
Theorem C07_due : forall (a b gamma alpha : R) mo nv (n : R) s i ed, (i < length (s_next RNum s))%nat ->
  nth i (s_next RNum (edge_step RNum a b gamma alpha mo nv n s i ed)) 0
    = if Rleb (nth i (s_next RNum s) 0) n then nth i (s_next RNum s) 0 + e_eps RNum ed else nth i (s_next RNum s) 0.
Proof. exact visit_iff_due. Qed.
Print Assumptions C07_due.

(* over N epochs an edge of period p = w_max / w >= 1 is visited floor((N-1)/p) times (in proportion w / w_max);
   edges with w < w_max / N (p > N) are never visited and are exactly the pruned ones *)
Theorem C07_count : forall p N, 1 <= p -> (1 <= N)%nat ->
  let v := visits RNum p N 0 p in INR v * p <= INR N - 1 < (INR v + 1) * p.
Proof. exact visit_count. Qed.
Print Assumptions C07_count.

Theorem C07_weak : forall p N, INR N - 1 < p -> 1 <= p -> (1 <= N)%nat -> visits RNum p N 0 p = O.
Proof. exact weak_never_visited. Qed.
Print Assumptions C07_weak.

Theorem C07_period : forall (N wmax w de : R), 10 < N -> 0 < wmax -> 0 < w ->
  epochs_per_sample RNum N wmax w = wmax / w /\
  (keep_edge RNum (prune_threshold RNum de N wmax) w = false <-> w < wmax / N).
Proof. exact period_and_pruning. Qed.
Print Assumptions C07_period.

(* negative samples: the generator returns an int32 and the drawn vertex index is always valid *)
Theorem C07_negative_vertex : forall st nv, (0 < nv)%Z ->
  (-2147483648 <= snd (tau_rand_int st) < 2147483648)%Z /\ (0 <= snd (tau_rand_int st) mod nv < nv)%Z.
Proof. intros st nv H. split; [exact (tau_rand_int_range st) | exact (negative_vertex_valid st nv H)]. Qed.
Print Assumptions C07_negative_vertex.

Example C07_nonvacuous : INR 4 * (5 / 2) <= INR 11 - 1 < (INR 4 + 1) * (5 / 2).
Proof. exact visits_example. Qed.
Print Assumptions C07_nonvacuous.

(* the same count holds inside the real run: after N epochs from the initial clocks, the clock of edge i of the
   optimiser state equals p + (number of visits) * p with the number of visits given by C07_count — for every graph,
   layout, parameter choice and interleaving with the other edges' updates *)
Theorem C07_run_count : forall (a b gamma : R) mo nv (alpha0 : R) es i s (N : nat),
  (i < length es)%nat -> length (s_next RNum s) = length es ->
  let p := e_eps RNum (nth i es (mkEdge RNum 0 0 0 0)) in
  nth i (s_next RNum s) 0 = p ->
  nth i (s_next RNum (run_from RNum a b gamma alpha0 mo nv (Z.of_nat N) es N 0 s)) 0 = p + INR (visits RNum p N 0 p) * p.
Proof. exact run_visits. Qed.
Print Assumptions C07_run_count.

(* the generic-output-metric optimiser: with Euclidean output its coefficients are the same gradient terms,
   the attractive one up to the factor d/(d + 1e-6) of its regulariser (it multiplies the unit-free gradient of
   the distance, hence the extra factor d), the repulsive one with regulariser 1e-6*d in place of 0.001 *)
Theorem C07_generic_step : forall a b gamma d, (0 < d)%R -> (0 <= a)%R ->
  gattr_coeff RNum a b d = ((- 2 * a * b * Rpower d (2 * b - 2) / (1 + a * Rpower d (2 * b))) * d * (d / (d + / 1000000)))%R /\
  grep_coeff RNum a b gamma d = (2 * gamma * b / ((d + / 1000000) * (1 + a * Rpower d (2 * b))))%R.
Proof. intros a b gamma d Hd Ha. split; [exact (generic_attr_formula a b d Hd Ha) | exact (generic_rep_formula a b gamma d Hd Ha)]. Qed.
Print Assumptions C07_generic_step.

Theorem C07_generic_frame : forall om (a b gamma : R) nv (alpha n : R) es i s,
  eT RNum (s_emb RNum (gedges_from RNum om a b gamma alpha false nv n i es s)) = eT RNum (s_emb RNum s).
Proof. exact generic_tail_frame. Qed.
Print Assumptions C07_generic_frame.

(* parametric variant: an edge of membership w is replicated floor(N*w) times *)
Theorem C07_replication : forall (N w : R), (0 <= N * w)%R ->
  (IZR (replication RNum N w) <= N * w < IZR (replication RNum N w) + 1)%R.
Proof. exact replication_bounds. Qed.
Print Assumptions C07_replication.

(* C09 — property statements only.  Model: the buffer machine of model/M_alias.v. *)
From Coq Require Import List Bool.
From UV Require Import M_alias T_alias.
Import ListNotations.

(* soundness of the static analysis, every program and every state: a program the analysis accepts writes no buffer that existed
   when it started *)
Theorem C09_safe_sound : forall p s s', safe p = true -> run p s = Some s' -> heap_frame s s'.
Proof. exact safe_frame. Qed.
Print Assumptions C09_safe_sound.

(* every sequence of transform / inverse_transform / * / + / -, every valuation of each, every starting state: every existing
   buffer (embedding_, graph_ data / indices / indptr, _raw_data, _sigmas, _rhos, kNN tables of every model; caller arrays) keeps
   its cell, the attributes of every model that is not a combination result keep their bindings, caller variables too *)
Theorem C09_readonly : forall f ops s s',
  run_rops f cur ops s = Some s' -> protected_unchanged (results ops) s s'.
Proof. exact readonly_ops_frame. Qed.
Print Assumptions C09_readonly.

Example C09_readonly_nonvacuous : exists s0 s',
  runo (fit0 (mkFacts true) cur 1) (run (fit0 (mkFacts true) cur 0) init_state) = Some s0 /\
  run_rops (mkFacts true) cur
    [RTransform 0 (mkT true false false true true); RInverse 0 false; RCombine OAdd 0 1 2 true; RCombine OMul 0 2 3 true;
     RCombine OSub 3 1 4 true; RTransform 1 (mkT false false false false true); RTransform 1 (mkT true true false false false)] s0 = Some s' /\
  ver_of s' (Attr 0 GData) = ver_of s0 (Attr 0 GData) /\ ver_of s' (Attr 0 Embedding) = Some 0 /\
  same_buffer s' tRes (Attr 1 Embedding) = true.
Proof. exact readonly_history_runs. Qed.
Print Assumptions C09_readonly_nonvacuous.

(* fit / transform / update never write a caller-owned buffer nor rebind a caller variable, from every state, for every valuation;
   fit's one in-place edit of the source is the hypothesis sort_safe (see C09_fit_sorts_caller_csr) *)
Theorem C09_caller_arrays : forall f m s s',
  (forall g l, sort_safe g = true -> run (fit_prog f cur m g l) s = Some s' ->
     (forall l0 c, cell_at s l0 = Some c -> own c = OCaller -> cell_at s' l0 = Some c) /\
     (forall cv, lookup (env s') (Caller cv) = lookup (env s) (Caller cv))) /\
  (forall t, run (transform_prog f cur m t) s = Some s' ->
     (forall l0 c, cell_at s l0 = Some c -> own c = OCaller -> cell_at s' l0 = Some c) /\
     (forall cv, lookup (env s') (Caller cv) = lookup (env s) (Caller cv))) /\
  (forall u, run (update_prog f cur m u) s = Some s' ->
     (forall l0 c, cell_at s l0 = Some c -> own c = OCaller -> cell_at s' l0 = Some c) /\
     (forall cv, lookup (env s') (Caller cv) = lookup (env s) (Caller cv))).
Proof. exact caller_arrays_frame. Qed.
Print Assumptions C09_caller_arrays.

(* before c7ea2b3: precomputed_knn with an active disconnection distance wrote the caller's arrays (alias or column view) *)
Theorem C09_caller_arrays_refuted_for_old_code : forall wide, exists s',
  run (fit_prog (mkFacts true) old_knn 0 (g_knn_disc wide) l_plain) init_state = Some s' /\
  ver_of init_state (Caller CKIdx) = Some 0 /\ ver_of s' (Caller CKIdx) = Some 1 /\ ver_of s' (Caller CKDist) = Some 1 /\
  same_buffer s' (Caller CKIdx) (Attr 0 KnnIdx) = true.
Proof. exact caller_arrays_frame_refuted. Qed.
Print Assumptions C09_caller_arrays_refuted_for_old_code.

Example C09_knn_copy_only_when_disconnected : exists s1 s2,
  run (fit_prog (mkFacts true) cur 0 (g_knn_disc false) l_plain) init_state = Some s1 /\
  ver_of s1 (Caller CKIdx) = Some 0 /\ same_buffer s1 (Caller CKIdx) (Attr 0 KnnIdx) = false /\
  run (fit_prog (mkFacts true) cur 0 (mkG false true true MNamed true false false true TNone true) l_plain) init_state = Some s2 /\
  ver_of s2 (Caller CKIdx) = Some 0 /\ same_buffer s2 (Caller CKIdx) (Attr 0 KnnIdx) = true.
Proof. exact knn_copy_only_when_disconnected. Qed.
Print Assumptions C09_knn_copy_only_when_disconnected.

(* before 81b7ad4: m0 - m1 wrote m0.graph_.data *)
Theorem C09_sub_refuted_for_old_code : exists s0 s',
  runo (fit0 (mkFacts true) old_sub 1) (run (fit0 (mkFacts true) old_sub 0) init_state) = Some s0 /\
  run (combine_prog (mkFacts true) old_sub OSub 0 1 2 true) s0 = Some s' /\
  lookup (env s') (Attr 0 GData) = lookup (env s0) (Attr 0 GData) /\
  ver_of s0 (Attr 0 GData) = Some 1 /\ ver_of s' (Attr 0 GData) = Some 2.
Proof. exact sub_operand_refuted. Qed.
Print Assumptions C09_sub_refuted_for_old_code.

(* the repair of #179 / #217 (transform optimises against a private copy of embedding_) is load-bearing *)
Theorem C09_transform_without_copy_refuted : exists s0 s',
  run (fit0 (mkFacts true) old_tail 0) init_state = Some s0 /\
  run (transform_prog (mkFacts true) old_tail 0 (mkT true false false false true)) s0 = Some s' /\
  ver_of s0 (Attr 0 Embedding) = Some 0 /\ ver_of s' (Attr 0 Embedding) = Some 1.
Proof. exact transform_tail_refuted. Qed.
Print Assumptions C09_transform_without_copy_refuted.

(* the in-place edit that remains in the source: a conforming CSR with unsorted indices is sorted in place *)
Example C09_fit_sorts_caller_csr : exists s',
  run (fit_prog (mkFacts true) cur 0 (mkG true true false MNamed false false false true TNone true) l_plain) init_state = Some s' /\
  ver_of s' (Caller CX) = Some 1 /\ same_buffer s' (Caller CX) (Attr 0 RawData) = true.
Proof. exact fit_sorts_caller_csr_in_place. Qed.
Print Assumptions C09_fit_sorts_caller_csr.

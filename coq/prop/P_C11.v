(* C11 — property statements only.  [c : ucode] records what the current text of update() does (both flags
   are read from the source on every run): re_resolve = it re-derives n_neighbors from the stacked sample
   count, cut_on_update = it applies the disconnection distance.  With both flags set the hypotheses are void. *)
From Coq Require Import List ZArith Reals.
From UV Require Import Num M_update T_update.
Import ListNotations.

(* fit(X1); update(X2) runs the graph stage with exactly the n_neighbors and the distance table of
   fit(X1 stacked over X2) — for every metric [dist], every graph stage [gs], every data set *)
Theorem C11_graph : forall (N : Num) (point : Type) (dist : point -> point -> N) (G : Type)
    (gs : nat -> list (list (option N)) -> G) c nn disc X1 X2,
  (re_resolve c = true \/ (nn < length X1)%nat) ->
  (cut_on_update c = true \/ cut_inactive N point dist disc (X1 ++ X2)) ->
  update N point dist G gs c nn disc (fit N point dist G gs nn disc X1) X2 = fit N point dist G gs nn disc (X1 ++ X2).
Proof. exact update_eq_fit. Qed.
Print Assumptions C11_graph.

(* ... and so does any sequence of update batches; the model (data, n_neighbors, graph) is that of the fresh
   fit, so later calls behave as on a freshly fitted model *)
Theorem C11_graph_chain : forall (N : Num) (point : Type) (dist : point -> point -> N) (G : Type)
    (gs : nat -> list (list (option N)) -> G) c nn disc batches X1,
  (re_resolve c = true \/ (nn < length X1)%nat) ->
  (cut_on_update c = true \/ cut_inactive N point dist disc (X1 ++ concat batches)) ->
  update_chain N point dist G gs c nn disc X1 batches = fit N point dist G gs nn disc (X1 ++ concat batches).
Proof. exact update_chain_eq_fit. Qed.
Print Assumptions C11_graph_chain.

Local Open Scope R_scope.
(* outside the hypotheses the equality fails: a truncated n_neighbors that is kept ... *)
Theorem C11_graph_refuted_stale_k :
  let c := mkUcode false true in
  f_k _ _ (RUpdate c 3%nat None (RFit 3%nat None [0; 1; 2]) [3; 4; 5]) = 2%nat /\
  f_k _ _ (RFit 3%nat None ([0; 1; 2] ++ [3; 4; 5])) = 3%nat /\
  RUpdate c 3%nat None (RFit 3%nat None [0; 1; 2]) [3; 4; 5] <> RFit 3%nat None ([0; 1; 2] ++ [3; 4; 5]).
Proof. exact stale_k_refuted. Qed.
Print Assumptions C11_graph_refuted_stale_k.

(* ... and an active disconnection distance that update() does not apply *)
Theorem C11_graph_refuted_no_cut :
  let c := mkUcode true false in
  entry02 (RUpdate c 1%nat (Some 3) (RFit 1%nat (Some 3) [0; 1]) [5]) = Some (Rdist 0 5) /\
  entry02 (RFit 1%nat (Some 3) ([0; 1] ++ [5])) = None /\
  RUpdate c 1%nat (Some 3) (RFit 1%nat (Some 3) [0; 1]) [5] <> RFit 1%nat (Some 3) ([0; 1] ++ [5]).
Proof. exact no_cut_refuted. Qed.
Print Assumptions C11_graph_refuted_no_cut.

(* init_update: a new row with at least one old neighbour becomes (its initial value + the sum of the old
   neighbours' rows) / their number — the mean of those rows when it starts from zeros, as in update() *)
Theorem C11_init_mean : forall tbl D n_orig,
  Forall (fun r => length r = D) tbl -> (Z.to_nat n_orig <= length tbl)%nat ->
  forall idx, olds n_orig idx <> [] ->
  (forall cur d, length cur = D ->
     col d (init_row RNum tbl n_orig idx cur)
     = (col d cur + colsum tbl d (olds n_orig idx)) / INR (length (olds n_orig idx)))%R /\
  (forall d, col d (init_row RNum tbl n_orig idx (repeat 0%R D))
             = (colsum tbl d (olds n_orig idx) / INR (length (olds n_orig idx)))%R).
Proof.
  intros tbl D n_orig H1 H2 idx H3. split.
  - intros cur d Hc. exact (init_row_mean tbl D n_orig H1 H2 idx cur Hc H3 d).
  - exact (init_row_is_mean tbl D n_orig H1 H2 idx H3).
Qed.
Print Assumptions C11_init_mean.

(* init_update is total: a row without old neighbours (a far group) is left as it is, the table keeps its
   shape and its old rows *)
Theorem C11_init_total : forall tbl n_orig,
  (forall idx cur, olds (Z.of_nat n_orig) idx = [] -> init_row RNum tbl (Z.of_nat n_orig) idx cur = cur) /\
  (forall indices, length indices = length tbl ->
     length (init_update RNum tbl n_orig indices) = length tbl /\
     firstn n_orig (init_update RNum tbl n_orig indices) = firstn n_orig tbl).
Proof.
  intros tbl n_orig. split.
  - intros idx cur H. exact (init_row_no_old tbl (length cur) (Z.of_nat n_orig) idx cur eq_refl H).
  - intros indices H. exact (init_update_shape tbl n_orig indices H).
Qed.
Print Assumptions C11_init_total.

(* the code before the repair: mean / n_components, ZeroDivisionError for a far row *)
Theorem C11_init_refuted_legacy :
  let tbl := [[2; 4]; [4; 8]; [0; 0]]%R in
  init_row_legacy RNum tbl 2 [2%Z; 0%Z; 1%Z] [0; 0]%R = Some [3 / 2; 3]%R /\
  (forall d, col d (init_row RNum tbl 2 [2%Z; 0%Z; 1%Z] [0; 0]%R) = col d [3; 6]%R) /\
  init_row_legacy RNum tbl 2 [2%Z; 2%Z] [0; 0]%R = None /\
  init_row RNum tbl 2 [2%Z; 2%Z] [0; 0]%R = [0; 0]%R.
Proof. exact init_row_legacy_refuted. Qed.
Print Assumptions C11_init_refuted_legacy.

Example C11_nonvacuous :
  cut_inactive RNum R Rdist (Some 10%R) ([0; 1] ++ [5])%R /\
  olds 2 [2%Z; 0%Z; 1%Z] = [0%Z; 1%Z] /\
  resolve_k 3 3 = 2%nat /\ resolve_k 3 6 = 3%nat.
Proof. exact update_nonvacuous. Qed.
Print Assumptions C11_nonvacuous.

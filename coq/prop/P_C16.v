(* C16 — property statements only.  A graph is the list of its stored entries (row, col, value);
   [functional]: a position is stored with one value (canonical sparse matrix); [entries01]: stored values
   lie in (0,1]; [symmetric]: equal values at (i,j) and (j,i); labels are a function sample -> Z, -1 = unlabelled. *)
From Coq Require Import List ZArith Bool Reals.
From UV Require Import Num FNum M_supervised T_supervised.
Import ListNotations.
Local Open Scope R_scope.

(* symmetric; entries in [0,1] (so every non-zero, i.e. stored, entry lies in (0,1]); edges only where the
   unsupervised graph has one; every vertex with an edge has an edge of strength exactly 1; invariant under
   any renaming of the class labels that fixes -1 and maps no class onto -1.  Holds for every target_weight. *)
Theorem C16 : forall (g : smat RNum) (lab : nat -> Z) (w : R),
  functional g -> entries01 g -> symmetric g ->
  let s := supervised RNum g lab w in
  (forall i j, s i j = s j i) /\
  (forall i j, 0 <= s i j <= 1) /\
  (forall i j, s i j <> 0 -> get RNum g i j <> 0) /\
  (forall i j, s i j <> 0 -> exists j', s i j' = 1) /\
  (forall pi, renaming pi -> supervised RNum g (fun i => pi (lab i)) w = s).
Proof. exact sup_main. Qed.
Print Assumptions C16.

(* before renormalisation: unlabelled-touching edges x exp(-1), cross-label edges x exp(-far), same-label x 1,
   with far = 2.5/(1-w) below target_weight 1 and 1e12 at (or above) 1 *)
Theorem C16_ratio : forall (w : R) (lab : nat -> Z) (i j : nat) (v : R),
  evl RNum (attenuate RNum (far_of RNum w) (unknown_dist RNum) lab (i, j, v)) =
    v * (if unknown (lab i) || unknown (lab j) then exp (- 1)
         else if negb (lab i =? lab j)%Z then exp (- far_of RNum w) else 1) /\
  (w < 1 -> far_of RNum w = 5 / 2 / (1 - w)) /\ (1 <= w -> far_of RNum w = 1000000000000).
Proof. exact attenuation_ratio. Qed.
Print Assumptions C16_ratio.

(* target_weight = 1: under the hypothesis that the far factor is 0, no edge joins two different known labels *)
Theorem C16_w1 : forall (funk : R) (g : smat RNum) (lab : nat -> Z) (i j : nat),
  unknown (lab i) = false -> unknown (lab j) = false -> lab i <> lab j ->
  supervised_f RNum 0 funk g lab i j = 0.
Proof. exact sup_f_w1. Qed.
Print Assumptions C16_w1.

(* ... and that hypothesis is a binary64 fact, not a real-number one: exp(-1e12) evaluates to 0 *)
Example C16_far_factor_underflows :
  nexp FNum (neg FNum (far_of FNum (one FNum))) = zero FNum /\ far_of FNum (one FNum) = of_Z FNum 1000000000000.
Proof. exact far_factor_underflows. Qed.
Print Assumptions C16_far_factor_underflows.

(* the facts of C16 for arbitrary factors in [0,1] (covers the zero far factor of target_weight = 1) *)
Theorem C16_factors : forall (ffar funk : R) (g : smat RNum) (lab : nat -> Z) (i j : nat),
  functional g -> entries01 g -> symmetric g -> 0 <= ffar <= 1 -> 0 <= funk <= 1 ->
  supervised_f RNum ffar funk g lab i j = supervised_f RNum ffar funk g lab j i /\
  0 <= supervised_f RNum ffar funk g lab i j <= 1 /\
  (supervised_f RNum ffar funk g lab i j <> 0 -> get RNum g i j <> 0) /\
  (supervised_f RNum ffar funk g lab i j <> 0 -> exists j', supervised_f RNum ffar funk g lab i j' = 1).
Proof. intros ffar funk g lab i j Hf H01 Hs Ha Hb. split; [apply sup_f_symmetric|]. split; [now apply sup_f_range|].
  split; [now apply sup_f_support | now apply sup_f_unit_edge]. Qed.
Print Assumptions C16_factors.

(* the correspondence evaluates [resym] / [entry_at] through their row-indexed twins: the same functions, for
   every carrier (in particular the binary64 one) and every size hint n *)
Theorem C16_indexed_lookup : forall (N : Num) (n : nat) (s : smat N) (i j : nat),
  resym_tab N n s i j = resym N s i j /\ entry_tab N n s i j = entry_at N s i j.
Proof. intros; split; [apply resym_tab_eq | apply entry_tab_eq]. Qed.
Print Assumptions C16_indexed_lookup.

Example C16_nonvacuous :
  functional ex_g /\ entries01 ex_g /\ symmetric ex_g /\ supervised RNum ex_g ex_lab 0 0%nat 1%nat = 1.
Proof. exact sup_nonvacuous. Qed.
Print Assumptions C16_nonvacuous.

(* C03 — property statements only.  [tol] = SMOOTH_K_TOLERANCE, [kscale] = MIN_K_DIST_SCALE (any values). *)
From Coq Require Import List ZArith Reals Permutation.
From UV Require Import Num M_smooth M_union M_knn T_knn.
Import ListNotations.
Local Open Scope R_scope.

(* named metric vs metric="precomputed" on that metric's distances: the same term of the model; what remains is
   fit's dispatch (name -> function -> pairwise matrix), which only the per-run correspondence can see *)
Theorem C03_named_is_precomputed : forall tol kscale (c : cfg RNum) d X,
  fit_named tol kscale c d X = fit_precomputed tol kscale c (pdist RNum d X).
Proof. exact named_is_precomputed. Qed.
Print Assumptions C03_named_is_precomputed.

(* Euclidean distance: unchanged by a translation, and by any permutation of the coordinates applied to both vectors *)
Theorem C03_euclid_invariant : forall x y t x' y', length x = length t -> length y = length t ->
  Permutation (combine x y) (combine x' y') ->
  euclid RNum (vadd RNum x t) (vadd RNum y t) = euclid RNum x y /\ euclid RNum x' y' = euclid RNum x y.
Proof. exact euclid_invariant. Qed.
Print Assumptions C03_euclid_invariant.

(* hence the Euclidean graph of a data set is unchanged by translating it or reordering its features *)
Theorem C03_euclid_graph : forall tol kscale (c : cfg RNum) (X : list (list R)) t s d,
  Forall (fun x => length x = d) X -> length t = d -> Permutation s (seq 0 d) ->
  graph_of_dist RNum tol kscale c (pdist RNum (euclid RNum) (map (fun x => vadd RNum x t) X)) =
  graph_of_dist RNum tol kscale c (pdist RNum (euclid RNum) X) /\
  graph_of_dist RNum tol kscale c (pdist RNum (euclid RNum) (map (permute s) X)) =
  graph_of_dist RNum tol kscale c (pdist RNum (euclid RNum) X).
Proof. exact graph_euclid_invariant. Qed.
Print Assumptions C03_euclid_graph.

(* positive rescaling of all distances: the same neighbours; the graph built from c*D with bandwidths c*sigma is the
   graph built from D with bandwidths sigma; and c*sigma calibrates a row of c*D exactly when sigma calibrates the row of D *)
Theorem C03_scale : forall tol c (cf : cfg RNum) D sigmas, 0 < c ->
  (forall i, knn RNum (scale_mat RNum c D) (c_k RNum cf) i = knn RNum D (c_k RNum cf) i) /\
  graph_with RNum tol cf (tables_of_dist RNum (c_k RNum cf) (scale_mat RNum c D)) (map (Rmult c) sigmas)
  = graph_with RNum tol cf (tables_of_dist RNum (c_k RNum cf) D) sigmas /\
  (forall row ninf sigma, sigma <> 0 ->
     psum RNum (map (Rmult c) row) (rho_of RNum tol (map (Rmult c) row) ninf (c_index RNum cf) (c_interp RNum cf)) (c * sigma)
     = psum RNum row (rho_of RNum tol row ninf (c_index RNum cf) (c_interp RNum cf)) sigma).
Proof. intros tol c cf D sigmas Hc. split; [intros i; exact (knn_scale c D (c_k RNum cf) i Hc) | split;
  [exact (graph_scale_given_calibration tol c cf D sigmas Hc) |
   intros row ninf sigma Hs; exact (calibration_transfers tol c row ninf (c_index RNum cf) (c_interp RNum cf) sigma Hc Hs)]]. Qed.
Print Assumptions C03_scale.

(* reordering the samples reorders rows and columns of the assembled graph identically *)
Theorem C03_relabel : forall r (p : nat -> nat) (A : coo RNum) i j, (forall a b, p a = p b -> a = b) ->
  graph RNum r (relabel RNum p A) (p i) (p j) = graph RNum r A i j.
Proof. exact graph_relabel. Qed.
Print Assumptions C03_relabel.

(* extension: with pairwise-distinct distances in row i, the neighbours of the sample now called p(i) in the relabelled
   matrix are the renamed neighbours of sample i (sorted lists over a total order are unique) *)
Theorem C03_knn_perm : forall (p pinv : nat -> nat) (D : list (list R)) k i,
  Forall (fun row => length row = length D) D ->
  Permutation (map p (seq 0 (length D))) (seq 0 (length D)) ->
  (forall j, (j < length D)%nat -> pinv (p j) = j) -> (forall j, (j < length D)%nat -> (p j < length D)%nat) ->
  (i < length D)%nat -> NoDup (nth i D []) ->
  knn RNum (perm_mat pinv D) k (p i) = map p (knn RNum D k i).
Proof. exact knn_equivariant. Qed.
Print Assumptions C03_knn_perm.

Example C03_nonvacuous : knn RNum [[0; 3; 1]; [3; 0; 2]; [1; 2; 0]] 2 1 = [1; 2]%nat.
Proof. exact knn_example. Qed.
Print Assumptions C03_nonvacuous.

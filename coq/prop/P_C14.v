(* C14 — property statements only.  For every function registered in umap/distances.py
   named_distances_with_gradients (model: coq/model/M_grads.v, as written in the source):
     at a differentiable point, the partial derivative (Coquelicot is_derive) of the RETURNED distance with respect to
     coordinate i of x — x with coordinate i replaced by t is [set_nth x i t] — exists and equals g_true, and the
     returned gradient component is g_true times the explicit regulariser factor the code introduces
     (D / (D + 1e-6) etc.; Reps6 = 1/1000000; no factor = the gradient is exactly the derivative).
   General dimension: euclidean, standardised euclidean, manhattan, chebyshev (unique maximiser), canberra, bray-curtis,
   cosine, minkowski, weighted minkowski, correlation, hellinger, mahalanobis (symmetric VI), hyperboloid;
   fixed dimension: haversine (2), spherical (3) and diagonal (4) Gaussian energy.
   cosine / minkowski / weighted_minkowski / correlation / hellinger / bray_curtis are the REPAIRED functions
   (proposed_fixes/C14_*.diff); [*_v0_refuted] document the behaviour before the repair, [symmetric_kl_grad_refuted] and
   [gaussian_energy_grad_refuted] the current code (known findings).
   Ssum f x y = sum_j f x_j y_j; Fsq, Fabs, ... are the summands (definitions in thm/T_grads*.v). *)
From Coq Require Import List ZArith Reals.
From Coquelicot Require Import Coquelicot.
From UV Require Import Num M_grads T_grads T_grads2 T_grads3 T_grads_refuted T_grads_examples.
Import ListNotations.
Local Open Scope R_scope.

Theorem C14_euclidean_grad_derive : forall x y i, (i < length x)%nat -> (i < length y)%nat ->
  0 < euclid x y ->
  is_derive (fun t => euclid (set_nth x i t) y) (nth i x 0) ((nth i x 0 - nth i y 0) / euclid x y) /\
  nth i (snd (euclidean_grad RNum x y)) 0 =
    (nth i x 0 - nth i y 0) / euclid x y * (euclid x y / (euclid x y + Reps6)).
Proof. exact euclidean_grad_derive. Qed.
Print Assumptions C14_euclidean_grad_derive.

Theorem C14_standardised_euclidean_grad_derive : forall x y sg i, (i < length x)%nat -> (i < length y)%nat ->
  length y = length sg -> 0 < nth i sg 0 -> 0 < seuclid x y sg ->
  let d := seuclid x y sg in
  is_derive (fun t => seuclid (set_nth x i t) y sg) (nth i x 0) ((nth i x 0 - nth i y 0) / (nth i sg 0 * d)) /\
  nth i (snd (standardised_euclidean_grad RNum x y sg)) 0 =
    (nth i x 0 - nth i y 0) / (nth i sg 0 * d) * (d * nth i sg 0 / (d * nth i sg 0 + Reps6)).
Proof. exact standardised_euclidean_grad_derive. Qed.
Print Assumptions C14_standardised_euclidean_grad_derive.

Theorem C14_manhattan_grad_derive : forall x y i, (i < length x)%nat -> (i < length y)%nat ->
  nth i x 0 <> nth i y 0 ->
  is_derive (fun t => manh (set_nth x i t) y) (nth i x 0) (sign (nth i x 0 - nth i y 0)) /\
  nth i (snd (manhattan_grad RNum x y)) 0 = sign (nth i x 0 - nth i y 0).
Proof. exact manhattan_grad_derive. Qed.
Print Assumptions C14_manhattan_grad_derive.

Theorem C14_canberra_grad_derive : forall x y i, (i < length x)%nat -> (i < length y)%nat ->
  nth i x 0 <> nth i y 0 -> nth i x 0 <> 0 ->
  is_derive (fun t => canb (set_nth x i t) y) (nth i x 0) (canberra_true (nth i x 0) (nth i y 0)) /\
  nth i (snd (canberra_grad RNum x y)) 0 = canberra_true (nth i x 0) (nth i y 0).
Proof. exact canberra_grad_derive. Qed.
Print Assumptions C14_canberra_grad_derive.

Theorem C14_bray_curtis_grad_derive : forall x y i, (i < length x)%nat -> (i < length y)%nat ->
  nth i x 0 <> nth i y 0 -> nth i x 0 + nth i y 0 <> 0 ->
  let den := Ssum Fabsp x y in
  let g := (sign (nth i x 0 - nth i y 0) - bc x y * sign (nth i x 0 + nth i y 0)) / den in
  is_derive (fun t => bc (set_nth x i t) y) (nth i x 0) g /\
  nth i (snd (bray_curtis_grad RNum x y)) 0 = g.
Proof. exact bray_curtis_grad_derive. Qed.
Print Assumptions C14_bray_curtis_grad_derive.

Theorem C14_chebyshev_grad_derive : forall x y m i, (m < length x)%nat -> (i < length x)%nat -> length x = length y ->
  nth m x 0 <> nth m y 0 ->
  (forall j, (j < length x)%nat -> j <> m -> Rabs (nth j x 0 - nth j y 0) < Rabs (nth m x 0 - nth m y 0)) ->
  let g := if Nat.eqb i m then sign (nth m x 0 - nth m y 0) else 0 in
  is_derive (fun t => cheb (set_nth x i t) y) (nth i x 0) g /\
  nth i (snd (chebyshev_grad RNum x y)) 0 = g.
Proof. exact chebyshev_grad_derive. Qed.
Print Assumptions C14_chebyshev_grad_derive.

Theorem C14_cosine_grad_derive : forall x y i, (i < length x)%nat -> (i < length y)%nat ->
  0 < Ssum Fxx x y -> 0 < Ssum Fyy x y ->
  let r := Ssum Fxy x y in let nx := Ssum Fxx x y in let ny := Ssum Fyy x y in
  let g := (nth i x 0 * r - nth i y 0 * nx) / sqrt (nx * nx * nx * ny) in
  is_derive (fun t => cosd (set_nth x i t) y) (nth i x 0) g /\
  nth i (snd (cosine_grad RNum x y)) 0 = g.
Proof. exact cosine_grad_derive. Qed.
Print Assumptions C14_cosine_grad_derive.

Theorem C14_minkowski_grad_derive : forall x y p i, (i < length x)%nat -> (i < length y)%nat ->
  0 < p -> nth i x 0 <> nth i y 0 ->
  let result := Ssum (Fpw p) x y in
  let g := Rpower (Rabs (nth i x 0 - nth i y 0)) (p - 1) * sign (nth i x 0 - nth i y 0) * Rpower result (1 / p - 1) in
  let Rp := Rpower result (1 - 1 / p) in
  is_derive (fun t => mink (set_nth x i t) y p) (nth i x 0) g /\
  nth i (snd (minkowski_grad RNum x y p)) 0 = g * (Rp / (Rp + Reps6)).
Proof. exact minkowski_grad_derive. Qed.
Print Assumptions C14_minkowski_grad_derive.

Theorem C14_weighted_minkowski_grad_derive : forall x y w p i, (i < length x)%nat -> (i < length y)%nat ->
  length y = length w -> List.Forall (fun v => 0 <= v) w -> 0 < nth i w 0 ->
  0 < p -> nth i x 0 <> nth i y 0 ->
  let result := Ssum (Fpw_w p) x (combine y w) in
  let g := nth i w 0 * Rpower (Rabs (nth i x 0 - nth i y 0)) (p - 1) * sign (nth i x 0 - nth i y 0) * Rpower result (1 / p - 1) in
  let Rp := Rpower result (1 - 1 / p) in
  is_derive (fun t => wmink (set_nth x i t) y w p) (nth i x 0) g /\
  nth i (snd (weighted_minkowski_grad RNum x y w p)) 0 = g * (Rp / (Rp + Reps6)).
Proof. exact weighted_minkowski_grad_derive. Qed.
Print Assumptions C14_weighted_minkowski_grad_derive.

Theorem C14_hellinger_grad_derive : forall x y i, (i < length x)%nat -> (i < length y)%nat ->
  0 < nth i x 0 -> 0 < nth i y 0 -> 0 < Ssum Fx x y -> 0 < Ssum Fy x y ->
  0 < 1 - Ssum Frt x y / sqrt (Ssum Fx x y * Ssum Fy x y) ->
  let r := Ssum Frt x y in let sx := Ssum Fx x y in let sy := Ssum Fy x y in
  let dd := sqrt (sx * sy) in
  let g := (sy * r / (2 * (dd * dd * dd)) - nth i y 0 / (2 * sqrt (nth i x 0 * nth i y 0) * dd)) / (2 * hell x y) in
  is_derive (fun t => hell (set_nth x i t) y) (nth i x 0) g /\
  nth i (snd (hellinger_grad RNum x y)) 0 = g.
Proof. exact hellinger_grad_derive. Qed.
Print Assumptions C14_hellinger_grad_derive.

Theorem C14_correlation_grad_derive : forall x y i, (i < length x)%nat -> length x = length y ->
  0 < c_nx x y -> 0 < c_ny x y -> c_dp x y <> 0 ->
  let g := ((nth i x 0 - c_mx x y) / c_nx x y - (nth i y 0 - c_my x y) / c_dp x y) * (1 - corr x y) in
  is_derive (fun t => corr (set_nth x i t) y) (nth i x 0) g /\
  nth i (snd (correlation_grad RNum x y)) 0 = g.
Proof. exact correlation_grad_derive. Qed.
Print Assumptions C14_correlation_grad_derive.

Theorem C14_mahalanobis_grad_derive : forall x y V i, (i < length x)%nat -> length x = length y ->
  sym_square V (length x) -> 0 < mahal x y V ->
  let d := mahal x y V in
  let gi := Ssum Fxy (nth i V []) (vdiff x y) in     (* (V (x - y))_i *)
  is_derive (fun t => mahal (set_nth x i t) y V) (nth i x 0) (gi / d) /\
  nth i (snd (mahalanobis_grad RNum x y V)) 0 = gi / d * (d / (d + Reps6)).
Proof. exact mahalanobis_grad_derive. Qed.
Print Assumptions C14_mahalanobis_grad_derive.

Theorem C14_hyperboloid_grad_derive : forall x y i, (i < length x)%nat -> length x = length y ->
  1 < hypB0 x y ->
  let s := sqrt (1 + Ssum Fxx x y) in let t := sqrt (1 + Ssum Fyy x y) in let B := hypB0 x y in
  let g := (nth i x 0 * t / s - nth i y 0) / (sqrt (B - 1) * sqrt (B + 1)) in
  is_derive (fun u => hyp (set_nth x i u) y) (nth i x 0) g /\
  nth i (snd (hyperboloid_grad RNum x y)) 0 = g.
Proof. exact hyperboloid_grad_derive. Qed.
Print Assumptions C14_hyperboloid_grad_derive.

Theorem C14_haversine_grad_derive : forall x0 x1 y0 y1, 0 < hav_a x0 x1 y0 y1 < 1 ->
  let a := hav_a x0 x1 y0 y1 in
  let denom := sqrt (Rabs (a - 1)) * sqrt (Rabs a) in
  let sin_lat := sin (1 / 2 * (x0 - y0)) in let cos_lat := cos (1 / 2 * (x0 - y0)) in
  let sin_long := sin (1 / 2 * (x1 - y1)) in let cos_long := cos (1 / 2 * (x1 - y1)) in
  let g0 := (sin_lat * cos_lat - sin (x0 + PI / 2) * cos (y0 + PI / 2) * (sin_long * sin_long)) / denom in
  let g1 := (cos (x0 + PI / 2) * cos (y0 + PI / 2) * sin_long * cos_long) / denom in
  is_derive (fun t => hav [t; x1] [y0; y1]) x0 g0 /\
  is_derive (fun t => hav [x0; t] [y0; y1]) x1 g1 /\
  snd (haversine_grad RNum sin cos asin PI [x0; x1] [y0; y1]) =
    [g0 * (denom / (denom + Reps6)); g1 * (denom / (denom + Reps6))].
Proof. exact haversine_grad_derive. Qed.
Print Assumptions C14_haversine_grad_derive.

Theorem C14_spherical_gaussian_energy_grad_derive : forall x0 x1 x2 y0 y1 y2, x2 <> 0 ->
  let sigma := Rabs x2 + Rabs y2 in
  let m := (x0 - y0) * (x0 - y0) + (x1 - y1) * (x1 - y1) in
  let g0 := (x0 - y0) / sigma in let g1 := (x1 - y1) / sigma in
  let g2 := sign x2 * (1 / sigma - m / (2 * (sigma * sigma))) in
  is_derive (fun t => sge [t; x1; x2] [y0; y1; y2]) x0 g0 /\
  is_derive (fun t => sge [x0; t; x2] [y0; y1; y2]) x1 g1 /\
  is_derive (fun t => sge [x0; x1; t] [y0; y1; y2]) x2 g2 /\
  snd (spherical_gaussian_energy_grad RNum PI [x0; x1; x2] [y0; y1; y2]) = [g0; g1; g2].
Proof. exact spherical_gaussian_energy_grad_derive. Qed.
Print Assumptions C14_spherical_gaussian_energy_grad_derive.

Theorem C14_diagonal_gaussian_energy_grad_derive : forall x0 x1 x2 x3 y0 y1 y2 y3, x2 <> 0 -> x3 <> 0 ->
  let s1 := Rabs x2 + Rabs y2 in let s2 := Rabs x3 + Rabs y3 in
  let mu1 := x0 - y0 in let mu2 := x1 - y1 in
  let g0 := mu1 / s1 in let g1 := mu2 / s2 in
  let g2 := sign x2 * (s1 - mu1 * mu1) / (2 * (s1 * s1)) in
  let g3 := sign x3 * (s2 - mu2 * mu2) / (2 * (s2 * s2)) in
  is_derive (fun t => dge [t; x1; x2; x3] [y0; y1; y2; y3]) x0 g0 /\
  is_derive (fun t => dge [x0; t; x2; x3] [y0; y1; y2; y3]) x1 g1 /\
  is_derive (fun t => dge [x0; x1; t; x3] [y0; y1; y2; y3]) x2 g2 /\
  is_derive (fun t => dge [x0; x1; x2; t] [y0; y1; y2; y3]) x3 g3 /\
  snd (diagonal_gaussian_energy_grad RNum PI [x0; x1; x2; x3] [y0; y1; y2; y3]) = [g0; g1; g2; g3].
Proof. exact diagonal_gaussian_energy_grad_derive. Qed.
Print Assumptions C14_diagonal_gaussian_energy_grad_derive.

Theorem C14_cosine_grad_v0_negated : forall x y i, (i < length x)%nat -> (i < length y)%nat ->
  0 < Ssum Fxx x y -> 0 < Ssum Fyy x y ->
  let g := (nth i x 0 * Ssum Fxy x y - nth i y 0 * Ssum Fxx x y) / sqrt (Ssum Fxx x y * Ssum Fxx x y * Ssum Fxx x y * Ssum Fyy x y) in
  is_derive (fun t => fst (cosine_grad_v0 RNum (set_nth x i t) y)) (nth i x 0) g /\
  nth i (snd (cosine_grad_v0 RNum x y)) 0 = - g.
Proof. exact cosine_grad_v0_negated. Qed.
Print Assumptions C14_cosine_grad_v0_negated.

Theorem C14_cosine_grad_v0_refuted :
  let x := [1; 0] in let y := [1; 1] in
  exists g, is_derive (fun t => fst (cosine_grad_v0 RNum (set_nth x 1 t) y)) (nth 1 x 0) g /\
            g = - / sqrt 2 /\ nth 1 (snd (cosine_grad_v0 RNum x y)) 0 = / sqrt 2 /\
            nth 1 (snd (cosine_grad_v0 RNum x y)) 0 - g > 1.
Proof. exact cosine_grad_v0_refuted. Qed.
Print Assumptions C14_cosine_grad_v0_refuted.

Theorem C14_bray_curtis_grad_v0_refuted :
  let x := [-2; 1] in let y := [-1; 3] in
  exists g, is_derive (fun t => fst (bray_curtis_grad_v0 RNum (set_nth x 0 t) y)) (nth 0 x 0) g /\
            g = - 4 / 49 /\ nth 0 (snd (bray_curtis_grad_v0 RNum x y)) 0 = - 10 / 49.
Proof. exact bray_curtis_grad_v0_refuted. Qed.
Print Assumptions C14_bray_curtis_grad_v0_refuted.

Theorem C14_correlation_grad_v0_refuted :
  let x := [-1; 0; 1] in let y := [2; -2; 0] in
  exists g, is_derive (fun t => fst (correlation_grad_v0 RNum (set_nth x 0 t) y)) (nth 0 x 0) g /\
            g = - 1 / 4 /\ nth 0 (snd (correlation_grad_v0 RNum x y)) 0 = 3 / 4.
Proof. exact correlation_grad_v0_refuted. Qed.
Print Assumptions C14_correlation_grad_v0_refuted.

Theorem C14_hellinger_grad_v0_refuted :
  let x := [1; 4] in let y := [4; 1] in
  exists g, is_derive (fun t => fst (hellinger_grad_v0 RNum (set_nth x 0 t) y)) (nth 0 x 0) g /\
            nth 0 (snd (hellinger_grad_v0 RNum x y)) 0 - g < - 49 / 10.
Proof. exact hellinger_grad_v0_refuted. Qed.
Print Assumptions C14_hellinger_grad_v0_refuted.

Theorem C14_minkowski_grad_v0_refuted :
  let x := [2; 0] in let y := [0; 0] in
  exists g, is_derive (fun t => fst (minkowski_grad_v0 RNum (set_nth x 0 t) y 2)) (nth 0 x 0) g /\
            g = 1 /\ nth 0 (snd (minkowski_grad_v0 RNum x y 2)) 0 = 8.
Proof. exact minkowski_grad_v0_refuted. Qed.
Print Assumptions C14_minkowski_grad_v0_refuted.

Theorem C14_weighted_minkowski_grad_v0_refuted :
  let x := [2; 0] in let y := [0; 0] in let w := [1; 1] in
  exists g, is_derive (fun t => fst (weighted_minkowski_grad_v0 RNum (set_nth x 0 t) y w 2)) (nth 0 x 0) g /\
            g = 1 /\ nth 0 (snd (weighted_minkowski_grad_v0 RNum x y w 2)) 0 = 8.
Proof. exact weighted_minkowski_grad_v0_refuted. Qed.
Print Assumptions C14_weighted_minkowski_grad_v0_refuted.

Theorem C14_gaussian_energy_grad_refuted :
  let x := [0; 0; 1; 1; 0] in let y := [1; 0; 1; 1; 0] in
  exists g, is_derive (fun t => ge (set_nth x 2 t) y) (nth 2 x 0) g /\ g = 1 / 4 /\
            nth 2 (snd (gaussian_energy_grad RNum sin cos asin PI x y)) 0 < 0.
Proof. exact gaussian_energy_grad_refuted. Qed.
Print Assumptions C14_gaussian_energy_grad_refuted.

Theorem C14_symmetric_kl_grad_refuted :
  let x := [1 / 4; 3 / 4] in let y := [1 / 2; 1 / 2] in
  exists g, is_derive (fun t => skl (set_nth x 0 t) y 0) (nth 0 x 0) g /\ g < - 1 / 2 /\
            1 / 4 < nth 0 (snd (symmetric_kl_grad RNum x y 0)) 0.
Proof. exact symmetric_kl_grad_refuted. Qed.
Print Assumptions C14_symmetric_kl_grad_refuted.

(* ---- non-vacuity: the hypotheses above are met at concrete points (the repaired six are instantiated in the *_v0_refuted proofs) ---- *)
Example C14_euclid_example :
  is_derive (fun t => euclid (set_nth [3; 4] 0 t) [0; 0]) 3 (3 / 5) /\ euclid [3; 4] [0; 0] = 5.
Proof. exact euclid_example. Qed.
Print Assumptions C14_euclid_example.

Example C14_manhattan_canberra_example :
  is_derive (fun t => manh (set_nth [3; -4] 1 t) [1; 1]) (-4) (-1) /\
  is_derive (fun t => canb (set_nth [3; -4] 0 t) [1; 1]) 3 (canberra_true 3 1).
Proof. exact manhattan_canberra_example. Qed.
Print Assumptions C14_manhattan_canberra_example.

Example C14_chebyshev_example :
  is_derive (fun t => cheb (set_nth [3; 1] 0 t) [0; 0]) 3 1 /\ is_derive (fun t => cheb (set_nth [3; 1] 1 t) [0; 0]) 1 0.
Proof. exact chebyshev_example. Qed.
Print Assumptions C14_chebyshev_example.

Example C14_mahalanobis_example :
  sym_square [[2; 1]; [1; 2]] 2 /\ mahal [1; 0] [0; 0] [[2; 1]; [1; 2]] = sqrt 2 /\
  exists g, is_derive (fun t => mahal (set_nth [1; 0] 0 t) [0; 0] [[2; 1]; [1; 2]]) 1 g.
Proof. exact mahalanobis_example. Qed.
Print Assumptions C14_mahalanobis_example.

Example C14_hyperboloid_example :
  1 < hypB0 [1] [0] /\ exists g, is_derive (fun u => hyp (set_nth [1] 0 u) [0]) 1 g.
Proof. exact hyperboloid_example. Qed.
Print Assumptions C14_hyperboloid_example.

Example C14_gaussian_energy_examples :
  (exists g, is_derive (fun t => sge [1; 2; t] [0; 0; 1]) (-1) g) /\
  (exists g, is_derive (fun t => dge [1; 2; t; 3] [0; 0; 1; 1]) (-1) g).
Proof. exact gaussian_energy_examples. Qed.
Print Assumptions C14_gaussian_energy_examples.

Example C14_haversine_example : 0 < hav_a (PI / 2) 0 0 0 < 1.
Proof. exact haversine_example. Qed.
Print Assumptions C14_haversine_example.

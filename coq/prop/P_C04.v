(* C04 — property statements only.  [tol] = SMOOTH_K_TOLERANCE, [kscale] = MIN_K_DIST_SCALE (any values).
   +inf distances and NaN rows are [None]. *)
From Coq Require Import List ZArith Reals.
From UV Require Import Num M_smooth M_union M_knn M_disconnect M_sgd T_disconnect.
Import ListNotations.
Local Open Scope R_scope.

(* dense path (the matrix is cut, then the k nearest are taken): an entry (i,j) of the fitted graph is
   non-zero only if sample j survived in i's table or i in j's, and then that distance is below t *)
Theorem C04_edges : forall tol kscale (c : cfg RNum) t D i j,
  graph_cut RNum tol kscale c t D i j <> 0 ->
  (exists d, nth_error (nth i D []) j = Some d /\ d < t) \/
  (exists d, nth_error (nth j D []) i = Some d /\ d < t).
Proof. exact no_far_edge. Qed.
Print Assumptions C04_edges.

Theorem C04_edges_sym : forall tol kscale (c : cfg RNum) t D i j,
  (forall a b, nth_error (nth a D []) b = nth_error (nth b D []) a) ->
  graph_cut RNum tol kscale c t D i j <> 0 -> exists d, nth_error (nth i D []) j = Some d /\ d < t.
Proof. exact no_far_edge_sym. Qed.
Print Assumptions C04_edges_sym.

(* kNN-table paths (sparse precomputed, NN-descent, precomputed_knn): the table is cut *)
Theorem C04_edges_knn : forall tol kscale (c : cfg RNum) t (rows : list (list (entry RNum))) i j,
  graph_of_tables RNum tol kscale c (tables_cut_knn RNum t rows) i j <> 0 ->
  (exists d, In (d, j) (nth i rows []) /\ d < t) \/ (exists d, In (d, i) (nth j rows []) /\ d < t).
Proof. exact no_far_edge_knn. Qed.
Print Assumptions C04_edges_knn.

(* a sample that keeps no neighbour but itself and is kept by nobody else has no edge *)
Theorem C04_isolated_if : forall tol kscale (c : cfg RNum) (tb : table RNum) n i,
  (forall d j, In (d, j) (fst (nth i tb ([], O))) -> j = i) ->
  (forall a d, a <> i -> ~ In (d, i) (fst (nth a tb ([], O)))) ->
  degree RNum (graph_of_tables RNum tol kscale c tb) n i = O.
Proof. exact isolated_if_all_cut. Qed.
Print Assumptions C04_isolated_if.

(* sample number p (vertex u of the graph; u = p unless unique=True) has an all-NaN row exactly when u has no edge *)
Theorem C04_nan : forall (g : nat -> nat -> R) n emb inverse p u,
  (forall a b, 0 <= g a b) -> length emb = n -> Forall (fun u => (u < n)%nat) inverse ->
  nth_error inverse p = Some u ->
  (nth_error (nan_rows RNum (postprocess RNum g n emb inverse)) p = Some true <-> degree RNum g n u = O).
Proof. exact nan_iff_isolated. Qed.
Print Assumptions C04_nan.

(* ... and a vertex with an edge keeps the row the optimiser produced *)
Theorem C04_row_kept : forall (g : nat -> nat -> R) n emb u, length emb = n -> (u < n)%nat ->
  degree RNum g n u <> O -> (forall b, 0 <= g u b) -> postprocess RNum g n emb [u] = [Some (nth u emb [])].
Proof. exact non_isolated_row_kept. Qed.
Print Assumptions C04_row_kept.

(* disconnected_vertices(model) is the NaN mask of embedding_ *)
Theorem C04_dv : forall (g : nat -> nat -> R) n emb inverse, length emb = n -> Forall (fun u => (u < n)%nat) inverse ->
  disconnected_vertices RNum g n inverse = nan_rows RNum (postprocess RNum g n emb inverse).
Proof. exact dv_eq_nan. Qed.
Print Assumptions C04_dv.

(* transform: a new point at or beyond t from all of its k nearest training samples is initialised to NaN;
   one with a neighbour below t (and no NaN neighbour) is not *)
Theorem C04_transform : forall tol kscale n_iter target mean_all index interp t dim emb (row : list (R * Z)),
  (forall e, In e row -> t <= fst e) ->
  init_row RNum dim emb (new_row RNum tol kscale n_iter target mean_all index interp t row) = None.
Proof. exact transform_far_is_nan. Qed.
Print Assumptions C04_transform.

Theorem C04_transform_near : forall sigma rho t dim emb (row : list (R * Z)),
  0 < sigma -> (exists e, In e row /\ fst e < t /\ snd e <> (-1)%Z) ->
  (forall e, In e row -> fst e < t -> emb (snd e) <> None) ->
  init_row RNum dim emb (new_row_with RNum sigma rho t row) <> None.
Proof. exact transform_near_not_nan_with. Qed.
Print Assumptions C04_transform_near.

(* the optimiser (C07 kernel) never writes the row of a head vertex j that no edge touches: negative
   samples are only read.  Hence a NaN initial row stays NaN and is all NaN, for every graph and epoch count
   (transform: move_other = false, only "no edge has head j" is needed) *)
Theorem C04_nan_never_spreads : forall a b gamma nv j alpha0 mo nepochs es,
  Forall (fun ed => e_head RNum ed <> j /\ (mo = true -> e_tail RNum ed <> j)) es ->
  forall fuel n s,
  nth j (eH RNum (s_emb RNum (run_from RNum a b gamma alpha0 mo nv nepochs es fuel n s))) [] = nth j (eH RNum (s_emb RNum s)) [].
Proof. exact head_frame. Qed.
Print Assumptions C04_nan_never_spreads.

(* the model's own graph has entries in [0,1], so C04_nan applies to it: *)
Theorem C04_graph_range : forall tol kscale (c : cfg RNum) t D i j, 0 <= c_r RNum c <= 1 ->
  0 <= graph_cut RNum tol kscale c t D i j <= 1.
Proof. exact graph_cut_range. Qed.
Print Assumptions C04_graph_range.

Theorem C04_nan_model : forall tol kscale (c : cfg RNum) t D emb inverse p u, 0 <= c_r RNum c <= 1 ->
  length emb = length D -> Forall (fun u => (u < length D)%nat) inverse -> nth_error inverse p = Some u ->
  (nth_error (nan_rows RNum (postprocess RNum (graph_cut RNum tol kscale c t D) (length D) emb inverse)) p = Some true
   <-> degree RNum (graph_cut RNum tol kscale c t D) (length D) u = O).
Proof. exact nan_iff_isolated_cut. Qed.
Print Assumptions C04_nan_model.

(* with set_op_mix_ratio > 0: isolated exactly when every entry of the sample's own table is cut and it survives in nobody's table *)
Theorem C04_isolated_iff : forall tol kscale (c : cfg RNum) (tb : table RNum) i, 0 < c_r RNum c <= 1 ->
  Forall (fun t : list (entry RNum) * nat => NoDup (map snd (fst t))) tb ->
  Forall (fun t : list (entry RNum) * nat => Forall (fun e => (snd e < length tb)%nat) (fst t)) tb ->
  (i < length tb)%nat ->
  (degree RNum (graph_of_tables RNum tol kscale c tb) (length tb) i = O <->
   (forall d j, In (d, j) (fst (nth i tb ([], O))) -> j = i) /\
   (forall a d, a <> i -> ~ In (d, i) (fst (nth a tb ([], O))))).
Proof. exact isolated_iff. Qed.
Print Assumptions C04_isolated_iff.

(* transform (separate reference layout, move_other = false): if no edge has head j, every other row of the result is
   independent of the content of row j (two runs that differ only in row j agree on all other rows, clocks and generator states) *)
Theorem C04_non_interference : forall a b gamma nv j alpha0 nepochs es, Forall (fun ed => e_head RNum ed <> j) es ->
  forall fuel n s s', srel j s s' ->
  srel j (run_from RNum a b gamma alpha0 false nv nepochs es fuel n s) (run_from RNum a b gamma alpha0 false nv nepochs es fuel n s').
Proof. exact non_interference. Qed.
Print Assumptions C04_non_interference.

(* the default disconnection distances (checked against the source table on every run) are the maxima of their metrics *)
Theorem C04_default_maxima :
  (forall c, -1 <= c <= 1 -> 0 <= 1 - c <= max_cosine /\ (1 - c = max_cosine <-> c = -1)) /\
  (forall c, -1 <= c <= 1 -> 0 <= 1 - c <= max_correlation) /\
  (forall s, 0 <= s <= 1 -> 0 <= sqrt (1 - s) <= max_hellinger /\ (s = 0 -> sqrt (1 - s) = max_hellinger)) /\
  (forall nz eq, 0 < nz -> 0 <= eq <= nz -> 0 <= (nz - eq) / nz <= max_jaccard /\ ((nz - eq) / nz = max_jaccard <-> eq = 0)) /\
  (forall tt ne, 0 <= tt -> 0 < ne -> 0 <= ne / (2 * tt + ne) <= max_dice /\ (tt = 0 -> ne / (2 * tt + ne) = max_dice)).
Proof. exact (conj cosine_le_max (conj correlation_le_max (conj hellinger_le_max (conj jaccard_le_max dice_le_max)))). Qed.
Print Assumptions C04_default_maxima.

Example C04_nonvacuous :
  map fst (fst (table_of_cut RNum 2 (cut_row RNum 5 (nth 2 exD [])))) = [0] /\
  snd (table_of_cut RNum 2 (cut_row RNum 5 (nth 2 exD []))) = 1%nat /\
  map snd (fst (table_of_cut RNum 2 (cut_row RNum 5 (nth 0 exD [])))) = [0; 1]%nat.
Proof. exact cut_example. Qed.
Print Assumptions C04_nonvacuous.

Example C04_transform_nonvacuous :
  init_row RNum 2 (fun _ => Some [0; 0]) (new_row_with RNum 1 1 5 [(6, 0%Z); (7, 1%Z)]) = None /\
  init_row RNum 2 (fun _ => Some [0; 0]) (new_row_with RNum 1 1 5 [(1, 0%Z); (7, 1%Z)]) <> None.
Proof. exact transform_example. Qed.
Print Assumptions C04_transform_nonvacuous.

(* C17 — property statements only. *)
From Coq Require Import List ZArith Reals.
From UV Require Import Num M_sgd M_dens T_dens.
Import ListNotations.
Local Open Scope R_scope.

(* the density term is never active when dens_lambda = 0 or dens_frac = 0 *)
Theorem C17_flag_off : forall dm (lambda frac : R) n N, lambda = 0 \/ frac = 0 -> (0 <= n < N)%Z ->
  densmap_flag RNum dm lambda frac n N = false.
Proof. exact flag_off. Qed.
Print Assumptions C17_flag_off.

(* ... and then the whole densMAP optimisation run equals the plain UMAP run: same positions, clocks and
   random draws, for every graph, initial state, schedule and epoch count *)
Theorem C17_off : forall (a b gamma : R) nv dp (alpha0 : R) mo nepochs es s,
  p_lambda RNum dp = 0 \/ p_frac RNum dp = 0 ->
  run_dens RNum dp a b gamma alpha0 mo nv nepochs es s = run RNum a b gamma alpha0 mo nv nepochs es s.
Proof. exact dens_off_is_umap. Qed.
Print Assumptions C17_off.

(* the local radius of vertex v is ln(1e-8 + (sum of mu*D over incident edges) / (sum of mu over incident edges)) *)
Theorem C17_radii : forall nvert es v, (v < nvert)%nat ->
  nth v (radii RNum nvert es) 0 = ln (/ 100000000 + wdsum RNum v es / wsum RNum v es).
Proof. exact radii_def. Qed.
Print Assumptions C17_radii.

(* for a vertex of positive degree the argument of the logarithm is positive: the radius is finite *)
Theorem C17_radii_finite : forall v es, Forall (fun e => 0 <= r_mu RNum e /\ 0 <= r_D RNum e) es ->
  0 < wsum RNum v es -> 0 < / 100000000 + wdsum RNum v es / wsum RNum v es.
Proof. intros v es Hf Hs. exact (radii_finite v es Hs (wdsum_nonneg v es Hf)). Qed.
Print Assumptions C17_radii_finite.

Example C17_nonvacuous :
  wsum RNum 0 [mkRE RNum 0 1 (/ 2) 4] = / 2 /\ wdsum RNum 0 [mkRE RNum 0 1 (/ 2) 4] = 2 /\
  wsum RNum 1 [mkRE RNum 0 1 (/ 2) 4] = / 2 /\ 0 < wsum RNum 0 [mkRE RNum 0 1 (/ 2) 4].
Proof. exact radii_example. Qed.
Print Assumptions C17_nonvacuous.

(* C18 — property statements only.  Graphs are lists of stored entries (row, col, value); [entries01]: stored
   values in (0,1]; [symmetric]: equal values at (i,j) and (j,i) (hypotheses and lemmas shared with C16; the
   entry at a position is the first stored one, the code reads canonical matrices).  The combined graph is
   [combine RNum (fun x => x) tol kk n_iters n op A B]: storage rounding = identity over R; [tol] =
   SMOOTH_K_TOLERANCE, [kk], [n_iters] = the defaults of reprocess_row — all three arbitrary here.  The real
   code raises ValueError on an empty operand graph (min of an empty array); a fitted model's graph is never
   empty, the statements below hold for the model with or without that case. *)
From Coq Require Import List ZArith Bool Reals.
From UV Require Import Num M_supervised T_supervised M_combine T_combine.
Import ListNotations.
Local Open Scope R_scope.

(* A + B, A * B, A - B: symmetric, entries in [0,1], every vertex with an edge has an edge of strength exactly
   1, edges only where A or B has one (only where A has one for A - B) *)
Theorem C18 : forall (tol : R) (kk : Z) (n_iters n : nat) (op : cop) (A B : smat RNum),
  entries01 A -> entries01 B -> symmetric A -> symmetric B ->
  let c := combine RNum (fun x => x) tol kk n_iters n op A B in
  (forall i j, c i j = c j i) /\
  (forall i j, 0 <= c i j <= 1) /\
  (forall i j, c i j <> 0 -> exists j', c i j' = 1) /\
  (forall i j, c i j <> 0 -> get RNum A i j <> 0 \/ get RNum B i j <> 0) /\
  (op = Sub -> forall i j, c i j <> 0 -> get RNum A i j <> 0).
Proof. exact combine_props. Qed.
Print Assumptions C18.

(* the graphs of A + B and B + A are equal (no hypothesis at all) *)
Theorem C18_comm : forall (tol : R) (kk : Z) (n_iters n : nat) (A B : smat RNum),
  combine RNum (fun x => x) tol kk n_iters n Add A B = combine RNum (fun x => x) tol kk n_iters n Add B A.
Proof. exact union_commutes. Qed.
Print Assumptions C18_comm.

(* unfitted operands and operands over different numbers of samples are rejected; otherwise the result is
   the combined graph *)
Theorem C18_reject : forall (tol : R) (kk : Z) (n_iters : nat) (op : cop),
  (forall MA MB, MA = None \/ MB = None ->
     combine_checked RNum (fun x => x) tol kk n_iters op MA MB = NotFitted RNum) /\
  (forall na A nb B, na <> nb ->
     combine_checked RNum (fun x => x) tol kk n_iters op (Some (na, A)) (Some (nb, B)) = SizeMismatch RNum) /\
  (forall n A B,
     combine_checked RNum (fun x => x) tol kk n_iters op (Some (n, A)) (Some (n, B))
       = Combined RNum (combine RNum (fun x => x) tol kk n_iters n op A B)).
Proof. intros tol kk n_iters op. split; [exact (unfitted_rejected tol kk n_iters op)|].
  split; [exact (mismatch_rejected tol kk n_iters op) | exact (fitted_same_size_combined tol kk n_iters op)]. Qed.
Print Assumptions C18_reject.

(* powers used by the recalibration keep (0,1] and keep 1; the recalibration exponent is positive and bounded *)
Theorem C18_power : forall x p, 0 < p -> 0 < x <= 1 -> 0 < npow RNum x p <= 1 /\ npow RNum 1 p = 1.
Proof. exact power_keeps_unit. Qed.
Print Assumptions C18_power.

Theorem C18_exponent : forall (tol : R) (kk : Z) (n_iters : nat) (s : smat RNum) (i : nat),
  / 2 ^ n_iters <= row_mid RNum tol kk n_iters s i <= 2 ^ n_iters.
Proof. exact reprocess_bounds. Qed.
Print Assumptions C18_exponent.

(* every value the three kernels write is non-negative; the fill values lie in (0,1] *)
Theorem C18_kernel_values : forall (n : nat) (op : cop) (A B : smat RNum), entries01 A -> entries01 B ->
  (forall i j v, In (i, j, v) (combine_kernel RNum n op A B) -> 0 <= v) /\
  0 < left_fill RNum A <= 1 /\ 0 < right_fill RNum B <= 1 /\ 0 < right_fill_compl RNum B <= 1.
Proof. intros n op A B HA HB. split; [exact (nonneg_combine_kernel n op A B HA HB)|].
  split; [exact (left_fill_range A HA)|]. split; [exact (right_fill_range B HB) | exact (right_fill_compl_range B HB)]. Qed.
Print Assumptions C18_kernel_values.

Example C18_nonvacuous : forall (tol : R) (kk : Z) (n_iters : nat),
  entries01 ex_A /\ entries01 ex_B /\ symmetric ex_A /\ symmetric ex_B /\
  exists j', combine RNum (fun x => x) tol kk n_iters 3 Add ex_A ex_B 0%nat j' = 1.
Proof. exact combine_nonvacuous. Qed.
Print Assumptions C18_nonvacuous.

(* C10 — property statements only.  [fitted s] = update() refreshes the fingerprint, refuses graph mode up
   front and keeps _raw_data in sample order (three facts read from the current source on every run), the
   shortcut is keyed on the current training data, and there are at least two training samples. *)
From Coq Require Import List Arith Bool.
From UV Require Import M_history T_history.
Import ListNotations.

(* at every point of every history: transform(Y) fails only for empty Y; otherwise it returns |Y| rows and
   n_components columns (graph mode: the current number of training samples); the shortcut fires exactly
   when Y is the *current* training data and then returns the current stored embedding; anything else is
   a fresh computation that depends only on (training-set version, Y, nonce) *)
Theorem C10_contract : forall ops s0, fitted s0 ->
  Forall (fun e : state * op * out => let '(s, o, res) := e in
    forall r t, input_of s o = Some (r, t) ->
      (o_err res = NoErr <-> r <> 0) /\
      (r <> 0 ->
         o_rows res = r /\ o_cols res = width s /\
         (o_short res = true <-> t = cur_tag s) /\
         (t = cur_tag s -> o_tag res = OEmb (version s) /\ o_rows res = n_train s) /\
         (t <> cur_tag s -> o_tag res = OComp (version s) t r (nonce s))))
    (run s0 ops).
Proof. exact transform_contract. Qed.
Print Assumptions C10_contract.

(* seeded model: the same transform call, repeated after any read-only calls, at any point of any history,
   returns the same output (rows, columns, shortcut flag and output identity) *)
Theorem C10_repeatable : forall pre mid o s0,
  seeded s0 = true -> is_transform o = true -> forallb readonly mid = true ->
  let s := final s0 pre in
  snd (step s o) = snd (step (final s (o :: mid)) o).
Proof. exact transform_repeatable. Qed.
Print Assumptions C10_repeatable.

(* inverse_transform(Z), embedding mode, Z non-empty: |Z| rows, the number of features of the first fit *)
Theorem C10_inverse_rows : forall ops s0,
  Forall (fun e : state * op * out => let '(s, o, res) := e in
    forall m, o = Inverse m -> md s = Embedding -> m <> 0 ->
      o_err res = NoErr /\ o_rows res = m /\ o_cols res = n_features s0)
    (run s0 ops).
Proof. exact inverse_rows. Qed.
Print Assumptions C10_inverse_rows.

(* the invariant is kept by every call, and the training set has grown by exactly what update() accepted *)
Theorem C10_invariant : forall ops s0, fitted s0 ->
  fitted (final s0 ops) /\
  n_train (final s0 ops) = n_train s0 + added (md s0) (graph_guard (cd s0)) ops.
Proof. intros ops s0 H. split; [exact (final_fitted ops s0 H) | exact (n_train_final ops s0)]. Qed.
Print Assumptions C10_invariant.

(* without the fingerprint refresh in update(): fit(30); update(5); transform(the first 30 samples) returns
   35 rows, and transform(all 35 current samples) is not recognised *)
Theorem C10_refuted_stale_key :
  let s0 := fresh 30 4 2 Embedding true false stale_code in
  key s0 = cur_tag s0 /\ 2 <= n_train s0 /\
  map (fun e => (o_rows (snd e), o_short (snd e))) (run s0 [Update 5; TransformOldTrain 0; TransformTrain])
    = [(35, false); (35, true); (35, false)] /\
  input_of (final s0 [Update 5]) (TransformOldTrain 0) = Some (30, DTrain 0) /\
  ~ Forall entry_transform (run s0 [Update 5; TransformOldTrain 0]).
Proof. exact stale_key_refuted. Qed.
Print Assumptions C10_refuted_stale_key.

(* without the up-front refusal of graph mode: update(5) raises after replacing the training data, and
   transform(the first 30 samples) then returns the 35 x 35 graph *)
Theorem C10_refuted_graph_update :
  let s0 := fresh 30 4 2 GraphMode true false unguarded_code in
  map (fun e => (o_err (snd e), o_rows (snd e), o_cols (snd e))) (run s0 [Update 5; TransformOldTrain 0])
    = [(ErrOther, 0, 0); (NoErr, 35, 35)] /\
  ~ Forall entry_transform (run s0 [Update 5; TransformOldTrain 0]).
Proof. exact graph_update_refuted. Qed.
Print Assumptions C10_refuted_graph_update.

(* approximate-neighbour model whose update() adopts the search index's tree-ordered copy of the data: the
   refreshed fingerprint belongs to the permuted rows and transform(current training data) is not recognised *)
Theorem C10_refuted_reordered :
  let s0 := fresh 30 4 2 Embedding true true reordered_code in
  map (fun e => (o_rows (snd e), o_short (snd e))) (run s0 [TransformTrain; Update 5; TransformTrain])
    = [(30, true); (35, false); (35, false)] /\
  ~ Forall entry_transform (run s0 [Update 5; TransformTrain]).
Proof. exact reordered_refuted. Qed.
Print Assumptions C10_refuted_reordered.

Example C10_nonvacuous :
  let s0 := fresh 30 4 2 Embedding true true good_code in
  fitted s0 /\
  map (fun e => (o_rows (snd e), o_cols (snd e), o_short (snd e)))
      (run s0 [TransformTrain; TransformNew 3 7; Update 5; TransformOldTrain 0; TransformTrain; Inverse 2])
    = [(30, 2, true); (3, 2, false); (35, 2, false); (30, 2, false); (35, 2, true); (2, 4, false)].
Proof. exact history_nonvacuous. Qed.
Print Assumptions C10_nonvacuous.

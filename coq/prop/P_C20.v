(* C20 — property statements only.  [validate] / [fit_plan] / [fit_graph] model the repaired decision chain,
   [validate_orig] the original one; [thr] is the small-data threshold (4096 in the source), [k] = n_neighbors.
   The graph constructor [fss] and UMAP's own neighbour searches are arbitrary functions. *)
From Coq Require Import List ZArith Bool.
From UV Require Import M_knnparam T_knnparam.
Import ListNotations.
Local Open Scope Z_scope.

(* >= n_neighbors columns, right number of rows: kept and pruned to exactly n_neighbors columns, for both
   values of force_approximation_algorithm, every n (below and above the threshold), every threshold *)
Theorem C20_prune : forall thr x, valid x -> k x <= cols x -> rows x = n x ->
  validate thr x = Use (k x) (if n x <? thr then true else force x).
Proof. exact prune_to_k. Qed.
Print Assumptions C20_prune.

(* ... and fit builds the graph from those k columns (the exact small-data path never shadows them) *)
Theorem C20_consumed : forall thr sp x, valid x -> k x <= cols x -> rows x = n x ->
  exists b, fit_plan thr sp x = Some (mkPlan b (k x) (Supplied (k x))) /\ b <> B_small_exact.
Proof. exact kept_tables_are_consumed. Qed.
Print Assumptions C20_consumed.

(* same graph as supplying only the first n_neighbors columns *)
Theorem C20_same_graph : forall (A B : Type) (fss : Z -> list (list A) -> B) (own_exact own_approx own_sparse : Z -> list (list A))
    thr sp x T, valid x -> k x <= cols x -> rows x = n x ->
  fit_graph fss own_exact own_approx own_sparse thr sp x T =
  fit_graph fss own_exact own_approx own_sparse thr sp (with_cols x (k x)) (take_cols (k x) T).
Proof. exact @extra_columns_irrelevant. Qed.
Print Assumptions C20_same_graph.

(* regardless of force_approximation_algorithm *)
Theorem C20_force_irrelevant : forall (A B : Type) (fss : Z -> list (list A) -> B) (own_exact own_approx own_sparse : Z -> list (list A))
    thr sp x T f, valid x -> k x <= cols x -> rows x = n x ->
  fit_graph fss own_exact own_approx own_sparse thr sp (with_force x f) T =
  fit_graph fss own_exact own_approx own_sparse thr sp x T.
Proof. exact @force_irrelevant. Qed.
Print Assumptions C20_force_irrelevant.

(* exact k-nearest-neighbour tables give the graph of UMAP's own exact search *)
Theorem C20_exact_tables : forall (A B : Type) (fss : Z -> list (list A) -> B) (own_exact own_approx own_sparse : Z -> list (list A))
    thr x T, valid x -> k x <= cols x -> rows x = n x -> k x < n x -> n x < thr -> force x = false ->
  take_cols (k x) T = own_exact (k x) ->
  fit_graph fss own_exact own_approx own_sparse thr false x T =
  fit_graph fss own_exact own_approx own_sparse thr false (absent x) T.
Proof. exact @exact_tables_eq_own. Qed.
Print Assumptions C20_exact_tables.

(* too few columns or wrong number of rows: ignored with the corresponding warning ... *)
Theorem C20_ignore : forall thr x, valid x -> (cols x < k x \/ rows x <> n x) ->
  validate thr x = Ignore (if cols x <? k x then W_few_columns else W_wrong_rows).
Proof. exact too_few_or_wrong_rows_ignored. Qed.
Print Assumptions C20_ignore.

(* ... and the result is the ordinary fit *)
Theorem C20_ignored_is_ordinary : forall (A B : Type) (fss : Z -> list (list A) -> B) (own_exact own_approx own_sparse : Z -> list (list A))
    thr sp x T, valid x -> (cols x < k x \/ rows x <> n x) ->
  fit_graph fss own_exact own_approx own_sparse thr sp x T =
  fit_graph fss own_exact own_approx own_sparse thr sp (absent x) T.
Proof. exact @ignored_eq_ordinary. Qed.
Print Assumptions C20_ignored_is_ordinary.

Theorem C20_cases : forall thr x, valid x ->
  (cols x < k x /\ validate thr x = Ignore W_few_columns) \/
  (k x <= cols x /\ rows x <> n x /\ validate thr x = Ignore W_wrong_rows) \/
  (k x <= cols x /\ rows x = n x /\ exists f, validate thr x = Use (k x) f).
Proof. exact validate_cases. Qed.
Print Assumptions C20_cases.

Theorem C20_malformed : forall thr x, provided x = true ->
  (unique x = true \/ idx_array x = false \/ dist_array x = false \/ same_shape x = false) ->
  exists e, validate thr x = Error e.
Proof. exact malformed_is_error. Qed.
Print Assumptions C20_malformed.

(* the ORIGINAL elif chain: below the threshold with force = False every supplied column is kept (C20_prune is
   false of it); everywhere else it agrees with the repaired chain *)
Theorem C20_orig_skips_pruning : forall thr x, valid x -> k x < cols x -> rows x = n x ->
  n x < thr -> force x = false -> validate_orig thr x = Use (cols x) true.
Proof. exact orig_skips_pruning. Qed.
Print Assumptions C20_orig_skips_pruning.

Theorem C20_orig_agrees_elsewhere : forall thr x, ~ (k x < cols x /\ rows x = n x /\ n x < thr /\ force x = false) ->
  validate_orig thr x = validate thr x.
Proof. exact orig_agrees_elsewhere. Qed.
Print Assumptions C20_orig_agrees_elsewhere.

Theorem C20_prune_refuted_on_orig :
  valid ex_input /\ k ex_input <= cols ex_input /\ rows ex_input = n ex_input /\
  validate_orig 4096 ex_input = Use 8 true /\ validate 4096 ex_input = Use 5 true /\
  fit_plan_orig 4096 false ex_input = Some (mkPlan B_standard 5 (Supplied 8)).
Proof. exact prune_to_k_refuted_on_orig. Qed.
Print Assumptions C20_prune_refuted_on_orig.

Example C20_nonvacuous :
  valid ex_input /\ validate 4096 ex_input = Use 5 true /\
  warnings 4096 ex_input = [W_no_search_index] /\
  validate 4096 (with_cols ex_input 4) = Ignore W_few_columns /\
  fit_plan 4096 false (with_cols ex_input 4) = Some (mkPlan B_small_exact 5 (OwnExact 5)).
Proof. exact knnparam_nonvacuous. Qed.
Print Assumptions C20_nonvacuous.

(* C02 — property statements only. *)
From Coq Require Import List ZArith Reals.
From UV Require Import Num M_union T_union.
Import ListNotations.
Local Open Scope R_scope.

Theorem C02_graph : forall (A : nat -> nat -> R) r i j,
  strengths01 A -> irreflexive A -> 0 <= r <= 1 ->
    graphf RNum r A i j = graphf RNum r A j i /\
    graphf RNum r A i i = 0 /\
    0 <= graphf RNum r A i j <= 1 /\
    graphf RNum r A i j = r * (A i j + A j i - A i j * A j i) + (1 - r) * (A i j * A j i) /\
    (graphf RNum r A i j <> 0 -> A i j <> 0 \/ A j i <> 0) /\
    (r = 1 -> Rmax (A i j) (A j i) <= graphf RNum r A i j) /\
    (r = 0 -> graphf RNum r A i j <= Rmin (A i j) (A j i)) /\
    (forall r', r <= r' <= 1 -> graphf RNum r A i j <= graphf RNum r' A i j).
Proof. exact graph_props. Qed.
Print Assumptions C02_graph.

(* for every mix ratio in [0,1] the entry lies between the pair's fuzzy intersection a*b and fuzzy union a+b-a*b and is
   their convex combination with weight r (the interpolation the statement's three consequences follow from) *)
Theorem C02_between : forall (A : nat -> nat -> R) r i j,
  strengths01 A -> 0 <= r <= 1 ->
    A i j * A j i <= graphf RNum r A i j <= A i j + A j i - A i j * A j i /\
    graphf RNum r A i j = r * graphf RNum 1 A i j + (1 - r) * graphf RNum 0 A i j.
Proof. exact graph_between. Qed.
Print Assumptions C02_between.

(* an entry of the assembled graph is non-zero only between a sample and one of its listed neighbours *)
Theorem C02_support : forall (rows : list (list (Z * R))) r i j,
  graph RNum r (coo_of_rows RNum 0 rows) i j <> 0 ->
    (exists z, In z (map fst (nth i rows [])) /\ j = Z.to_nat z) \/
    (exists z, In z (map fst (nth j rows [])) /\ i = Z.to_nat z).
Proof. exact graph_support. Qed.
Print Assumptions C02_support.

(* positivity: with r > 0 an edge is present as soon as one direction is; with r = 0 iff both are *)
Theorem C02_positive : forall r a b, 0 <= a <= 1 -> 0 <= b <= 1 ->
  (0 < r <= 1 -> (0 < a \/ 0 < b) -> 0 < mix RNum r a b) /\
  (0 <= r <= 1 -> 0 < a -> 0 < b -> 0 < mix RNum r a b).
Proof. intros r a b Ha Hb; split; intros.
  - apply mix_pos; auto.
  - apply mix_pos_inter; tauto. Qed.
Print Assumptions C02_positive.

(* hypotheses are satisfiable by a non-trivial matrix *)
Example C02_nonvacuous :
  let A := fun i j : nat => if Nat.eqb i j then 0 else if Nat.eqb i 0 then 1 else / 2 in
  strengths01 A /\ irreflexive A /\ graphf RNum (/ 2) A 0 1 = 3 / 4.
Proof. exact graph_nonvacuous. Qed.
Print Assumptions C02_nonvacuous.

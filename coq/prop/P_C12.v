(* C12 — property statements only.  Every statement is about the model term [d_<metric> RNum] of
   model/M_metrics.v (the registered function of umap/distances.py `named_distances`; aliases share the definition),
   for vectors (lists) of EVERY length.  [length x = length y] is the code's own precondition (it indexes y by x's
   range); domains are stated where the metric has one.  ll_dirichlet: symmetry only (the other axioms are observed
   on the implementation, see harness/c12.py). *)
From Coq Require Import List ZArith Reals Permutation.
From UV Require Import Num M_metrics T_metrics T_metrics_tri.
Import ListNotations.
Local Open Scope R_scope.

(* symmetric, non-negative, zero on identical arguments *)
Theorem C12_euclidean : forall (x y : list R), d_euclidean RNum x y = d_euclidean RNum y x /\ 0 <= d_euclidean RNum x y /\ d_euclidean RNum x x = 0.
Proof. exact ax_euclidean. Qed.
Print Assumptions C12_euclidean.

Theorem C12_euclidean_triangle : forall x y z : list R, length x = length y -> length y = length z ->
  d_euclidean RNum x z <= d_euclidean RNum x y + d_euclidean RNum y z.
Proof. exact tri_euclidean. Qed.
Print Assumptions C12_euclidean_triangle.

Theorem C12_manhattan : forall (x y : list R), d_manhattan RNum x y = d_manhattan RNum y x /\ 0 <= d_manhattan RNum x y /\ d_manhattan RNum x x = 0.
Proof. exact ax_manhattan. Qed.
Print Assumptions C12_manhattan.

Theorem C12_manhattan_triangle : forall x y z : list R, length x = length y -> length y = length z ->
  d_manhattan RNum x z <= d_manhattan RNum x y + d_manhattan RNum y z.
Proof. exact tri_manhattan. Qed.
Print Assumptions C12_manhattan_triangle.

(* ... and it dominates every coordinate difference (it is the maximum) *)
Theorem C12_chebyshev : forall x y : list R,
  d_chebyshev RNum x y = d_chebyshev RNum y x /\ 0 <= d_chebyshev RNum x y /\ d_chebyshev RNum x x = 0 /\
  Forall (fun t => t <= d_chebyshev RNum x y) (zipw (fun a b => Rabs (a - b)) x y).
Proof. exact ax_chebyshev. Qed.
Print Assumptions C12_chebyshev.

Theorem C12_chebyshev_triangle : forall x y z : list R, length x = length y -> length y = length z ->
  d_chebyshev RNum x z <= d_chebyshev RNum x y + d_chebyshev RNum y z.
Proof. exact tri_chebyshev. Qed.
Print Assumptions C12_chebyshev_triangle.

(* any exponent p <> 0 (p = 0 is a ZeroDivisionError in the code) *)
Theorem C12_minkowski : forall (p : R) (x y : list R), p <> 0 ->
  d_minkowski RNum p x y = d_minkowski RNum p y x /\ 0 <= d_minkowski RNum p x y /\ d_minkowski RNum p x x = 0.
Proof. exact ax_minkowski. Qed.
Print Assumptions C12_minkowski.

(* at p = 1 and p = 2 minkowski IS manhattan / euclidean (so it inherits their triangle inequalities) *)
Theorem C12_minkowski_p1 : forall x y : list R, d_minkowski RNum 1 x y = d_manhattan RNum x y.
Proof. exact minkowski_p1. Qed.
Print Assumptions C12_minkowski_p1.

Theorem C12_minkowski_p2 : forall x y : list R, d_minkowski RNum 2 x y = d_euclidean RNum x y.
Proof. exact minkowski_p2. Qed.
Print Assumptions C12_minkowski_p2.

(* with positive variances the square root is taken of a non-negative number *)
Theorem C12_seuclidean : forall V x y : list R,
  d_seuclidean RNum V x y = d_seuclidean RNum V y x /\ 0 <= d_seuclidean RNum V x y /\ d_seuclidean RNum V x x = 0 /\
  (Forall (fun v => 0 < v) V -> exists r, 0 <= r /\ d_seuclidean RNum V x y = sqrt r).
Proof. exact ax_seuclidean. Qed.
Print Assumptions C12_seuclidean.

Theorem C12_wminkowski : forall (w : list R) (p : R) (x y : list R), p <> 0 ->
  d_wminkowski RNum w p x y = d_wminkowski RNum w p y x /\ 0 <= d_wminkowski RNum w p x y /\ d_wminkowski RNum w p x x = 0.
Proof. exact ax_wminkowski. Qed.
Print Assumptions C12_wminkowski.

(* any matrix VI (symmetry of d in x,y needs no symmetry of VI: the quadratic form is even) *)
Theorem C12_mahalanobis : forall (VI : list (list R)) (x y : list R),
  d_mahalanobis RNum VI x y = d_mahalanobis RNum VI y x /\ 0 <= d_mahalanobis RNum VI x y /\ d_mahalanobis RNum VI x x = 0.
Proof. exact ax_mahalanobis. Qed.
Print Assumptions C12_mahalanobis.

Theorem C12_canberra : forall (x y : list R), d_canberra RNum x y = d_canberra RNum y x /\ 0 <= d_canberra RNum x y /\ d_canberra RNum x x = 0.
Proof. exact ax_canberra. Qed.
Print Assumptions C12_canberra.

(* within [0,1] on non-negative data *)
Theorem C12_braycurtis : forall x y : list R,
  d_braycurtis RNum x y = d_braycurtis RNum y x /\ 0 <= d_braycurtis RNum x y /\ d_braycurtis RNum x x = 0 /\
  (nonnegl x -> nonnegl y -> d_braycurtis RNum x y <= 1).
Proof. exact ax_braycurtis. Qed.
Print Assumptions C12_braycurtis.

(* within [0,2] by Cauchy-Schwarz, all-zero conventions included *)
Theorem C12_cosine : forall x y : list R, length x = length y ->
  d_cosine RNum x y = d_cosine RNum y x /\ 0 <= d_cosine RNum x y <= 2 /\ d_cosine RNum x x = 0.
Proof. exact ax_cosine. Qed.
Print Assumptions C12_cosine.

Theorem C12_correlation : forall x y : list R, length x = length y ->
  d_correlation RNum x y = d_correlation RNum y x /\ 0 <= d_correlation RNum x y <= 2 /\ d_correlation RNum x x = 0.
Proof. exact ax_correlation. Qed.
Print Assumptions C12_correlation.

(* domain: non-negative vectors *)
Theorem C12_hellinger : forall x y : list R, nonnegl x -> nonnegl y ->
  d_hellinger RNum x y = d_hellinger RNum y x /\ 0 <= d_hellinger RNum x y <= 1 /\ d_hellinger RNum x x = 0.
Proof. exact ax_hellinger. Qed.
Print Assumptions C12_hellinger.

(* the square root is taken of a non-negative number (Rbc = sum sqrt(x_i y_i)); the clamp of the repaired code is inactive over R *)
Theorem C12_hellinger_radicand : forall x y : list R, length x = length y -> nonnegl x -> nonnegl y -> vsum RNum x <> 0 -> vsum RNum y <> 0 ->
  0 <= 1 - Rbc x y / sqrt (vsum RNum x * vsum RNum y) /\
  d_hellinger RNum x y = sqrt (1 - Rbc x y / sqrt (vsum RNum x * vsum RNum y)).
Proof. exact hellinger_radicand. Qed.
Print Assumptions C12_hellinger_radicand.

(* defined exactly in dimension 2; within [0, pi] *)
Theorem C12_haversine : forall x0 x1 y0 y1 : R,
  exists v, d_haversine RNum RExt [x0; x1] [y0; y1] = Some v /\ d_haversine RNum RExt [y0; y1] [x0; x1] = Some v /\
            0 <= v <= PI /\ d_haversine RNum RExt [x0; x1] [x0; x1] = Some 0.
Proof. exact ax_haversine. Qed.
Print Assumptions C12_haversine.

(* on latitudes in [-pi/2, pi/2] the arcsine is taken of a number in [0,1] (the clamp of the repaired code is inactive over R) *)
Theorem C12_haversine_radicand : forall x0 x1 y0 y1 : R, - (PI / 2) <= x0 <= PI / 2 -> - (PI / 2) <= y0 <= PI / 2 ->
  0 <= Rhav_arg x0 x1 y0 y1 <= 1 /\ d_haversine RNum RExt [x0; x1] [y0; y1] = Some (2 * asin (Rhav_arg x0 x1 y0 y1)).
Proof. exact haversine_radicand. Qed.
Print Assumptions C12_haversine_radicand.

Theorem C12_haversine_dimension : forall x y : list R, length x <> 2%nat -> d_haversine RNum RExt x y = None.
Proof. exact haversine_dimension. Qed.
Print Assumptions C12_haversine_dimension.

(* domain: the open unit ball *)
Theorem C12_poincare : forall u v : list R, vsq RNum u < 1 -> vsq RNum v < 1 ->
  d_poincare RNum u v = d_poincare RNum v u /\ 0 <= d_poincare RNum u v /\ d_poincare RNum u u = 0.
Proof. exact ax_poincare. Qed.
Print Assumptions C12_poincare.

(* domain: non-negative vectors, smoothing z > 0 *)
Theorem C12_symmetric_kl : forall (z : R) (x y : list R), 0 < z -> nonnegl x -> nonnegl y ->
  d_symmetric_kl RNum z x y = d_symmetric_kl RNum z y x /\ 0 <= d_symmetric_kl RNum z x y /\ d_symmetric_kl RNum z x x = 0.
Proof. exact ax_symmetric_kl. Qed.
Print Assumptions C12_symmetric_kl.

(* PARTIAL: symmetry only; non-negativity is by the clamp, d(x,x) = 0 is NOT a theorem of the documented approximation (observed up to rounding) *)
Theorem C12_ll_dirichlet_partial : forall x y : list R, d_ll_dirichlet RNum RExt x y = d_ll_dirichlet RNum RExt y x.
Proof. exact ax_ll_dirichlet_sym. Qed.
Print Assumptions C12_ll_dirichlet_partial.

Theorem C12_hamming : forall x y : list R, length x = length y ->
  d_hamming RNum x y = d_hamming RNum y x /\ 0 <= d_hamming RNum x y <= 1 /\ d_hamming RNum x x = 0.
Proof. exact ax_hamming. Qed.
Print Assumptions C12_hamming.

Theorem C12_hamming_triangle : forall x y z : list R, length x = length y -> length y = length z ->
  d_hamming RNum x z <= d_hamming RNum x y + d_hamming RNum y z.
Proof. exact tri_hamming. Qed.
Print Assumptions C12_hamming_triangle.

Theorem C12_hamming_on_booleans : forall x y : list R, length x = length y -> boolvec x -> boolvec y -> d_hamming RNum x y = d_matching RNum x y.
Proof. exact hamming_on_booleans. Qed.
Print Assumptions C12_hamming_on_booleans.

(* binary family: symmetric, bounded, zero on identical arguments, a function of the four counts only *)
Theorem C12_jaccard : forall x y : list R, length x = length y -> x <> [] ->
  d_jaccard RNum x y = d_jaccard RNum y x /\ 0 <= d_jaccard RNum x y <= 1 /\ d_jaccard RNum x x = 0 /\
  (forall x' y' : list R, counts RNum x' y' = counts RNum x y -> d_jaccard RNum x' y' = d_jaccard RNum x y).
Proof. exact ax_jaccard. Qed.
Print Assumptions C12_jaccard.

Theorem C12_matching : forall x y : list R, length x = length y -> x <> [] ->
  d_matching RNum x y = d_matching RNum y x /\ 0 <= d_matching RNum x y <= 1 /\ d_matching RNum x x = 0 /\
  (forall x' y' : list R, counts RNum x' y' = counts RNum x y -> d_matching RNum x' y' = d_matching RNum x y).
Proof. exact ax_matching. Qed.
Print Assumptions C12_matching.

Theorem C12_dice : forall x y : list R, length x = length y -> x <> [] ->
  d_dice RNum x y = d_dice RNum y x /\ 0 <= d_dice RNum x y <= 1 /\ d_dice RNum x x = 0 /\
  (forall x' y' : list R, counts RNum x' y' = counts RNum x y -> d_dice RNum x' y' = d_dice RNum x y).
Proof. exact ax_dice. Qed.
Print Assumptions C12_dice.

Theorem C12_kulsinski : forall x y : list R, length x = length y -> x <> [] ->
  d_kulsinski RNum x y = d_kulsinski RNum y x /\ 0 <= d_kulsinski RNum x y <= 1 /\ d_kulsinski RNum x x = 0 /\
  (forall x' y' : list R, counts RNum x' y' = counts RNum x y -> d_kulsinski RNum x' y' = d_kulsinski RNum x y).
Proof. exact ax_kulsinski. Qed.
Print Assumptions C12_kulsinski.

Theorem C12_rogerstanimoto : forall x y : list R, length x = length y -> x <> [] ->
  d_rogerstanimoto RNum x y = d_rogerstanimoto RNum y x /\ 0 <= d_rogerstanimoto RNum x y <= 1 /\ d_rogerstanimoto RNum x x = 0 /\
  (forall x' y' : list R, counts RNum x' y' = counts RNum x y -> d_rogerstanimoto RNum x' y' = d_rogerstanimoto RNum x y).
Proof. exact ax_rogerstanimoto. Qed.
Print Assumptions C12_rogerstanimoto.

Theorem C12_russellrao : forall x y : list R, length x = length y -> x <> [] ->
  d_russellrao RNum x y = d_russellrao RNum y x /\ 0 <= d_russellrao RNum x y <= 1 /\ d_russellrao RNum x x = 0 /\
  (forall x' y' : list R, counts RNum x' y' = counts RNum x y -> d_russellrao RNum x' y' = d_russellrao RNum x y).
Proof. exact ax_russellrao. Qed.
Print Assumptions C12_russellrao.

Theorem C12_sokalmichener : forall x y : list R, length x = length y -> x <> [] ->
  d_sokalmichener RNum x y = d_sokalmichener RNum y x /\ 0 <= d_sokalmichener RNum x y <= 1 /\ d_sokalmichener RNum x x = 0 /\
  (forall x' y' : list R, counts RNum x' y' = counts RNum x y -> d_sokalmichener RNum x' y' = d_sokalmichener RNum x y).
Proof. exact ax_sokalmichener. Qed.
Print Assumptions C12_sokalmichener.

Theorem C12_sokalsneath : forall x y : list R, length x = length y -> x <> [] ->
  d_sokalsneath RNum x y = d_sokalsneath RNum y x /\ 0 <= d_sokalsneath RNum x y <= 1 /\ d_sokalsneath RNum x x = 0 /\
  (forall x' y' : list R, counts RNum x' y' = counts RNum x y -> d_sokalsneath RNum x' y' = d_sokalsneath RNum x y).
Proof. exact ax_sokalsneath. Qed.
Print Assumptions C12_sokalsneath.

Theorem C12_yule : forall x y : list R, length x = length y -> x <> [] ->
  d_yule RNum x y = d_yule RNum y x /\ 0 <= d_yule RNum x y <= 2 /\ d_yule RNum x x = 0 /\
  (forall x' y' : list R, counts RNum x' y' = counts RNum x y -> d_yule RNum x' y' = d_yule RNum x y).
Proof. exact ax_yule. Qed.
Print Assumptions C12_yule.

(* the counts (hence every binary metric) are invariant under any common permutation of the coordinates *)
Theorem C12_counts_permutation : forall x y x' y' : list R,
  Permutation (combine x y) (combine x' y') -> counts RNum x y = counts RNum x' y'.
Proof. exact counts_permutation. Qed.
Print Assumptions C12_counts_permutation.

Theorem C12_counts_total : forall x y : list R, length x = length y -> c_total (counts RNum x y) = Z.of_nat (length x).
Proof. exact counts_total. Qed.
Print Assumptions C12_counts_total.

(* non-vacuity: concrete values, the all-zero conventions of cosine, and hamming is NOT a function of the counts *)
Example C12_nonvacuous :
  d_manhattan RNum [1; 2] [3; 5] = 5 /\ d_cosine RNum [1; 0] [0; 1] = 1 /\
  (d_cosine RNum [0; 0] [0; 1] = 1 /\ d_cosine RNum [0; 0] [0; 0] = 0) /\
  d_jaccard RNum [1; 0; 1; 0] [1; 1; 0; 0] = 2 / 3 /\
  (counts RNum [1] [2] = counts RNum [1] [1] /\ d_hamming RNum [1] [2] = 1 /\ d_hamming RNum [1] [1] = 0).
Proof. exact (conj ex_manhattan (conj ex_cosine_orthogonal (conj ex_cosine_zero_convention (conj ex_jaccard hamming_not_counts)))). Qed.
Print Assumptions C12_nonvacuous.

(* three members of the binary family are metrics on the truth values: triangle inequality for vectors of every length
   (matching = m/n; rogers_tanimoto = sokal_michener = 2m/(n+m), m the number of coordinates whose truth values differ) *)
Theorem C12_matching_triangle : forall x y z : list R, length x = length y -> length y = length z ->
  d_matching RNum x z <= d_matching RNum x y + d_matching RNum y z.
Proof. exact tri_matching. Qed.
Print Assumptions C12_matching_triangle.

Theorem C12_rogerstanimoto_triangle : forall x y z : list R, length x = length y -> length y = length z -> x <> [] ->
  d_rogerstanimoto RNum x z <= d_rogerstanimoto RNum x y + d_rogerstanimoto RNum y z.
Proof. exact tri_rogerstanimoto. Qed.
Print Assumptions C12_rogerstanimoto_triangle.

Theorem C12_sokalmichener_triangle : forall x y z : list R, length x = length y -> length y = length z -> x <> [] ->
  d_sokalmichener RNum x z <= d_sokalmichener RNum x y + d_sokalmichener RNum y z.
Proof. exact tri_sokalmichener. Qed.
Print Assumptions C12_sokalmichener_triangle.

(* C13 — property statements only.  canonical = strictly increasing indices + no stored zero; below n = indices < n.
   All statements are about the real-number instance of the model in model/M_sparse.v; `sparse_correlation` is the
   function after the proposed repair (proposed_fixes/C13_*.diff), `sparse_correlation_orig` the unrepaired text.
   For the metrics that divide by n_features the case n = 0 (where both implementations raise ZeroDivisionError)
   is excluded. *)
From Coq Require Import List ZArith Bool Reals.
From UV Require Import Num M_metrics M_sparse M_sparse_lld T_sparse T_sparse_metrics T_sparse_corr T_sparse_link T_sparse_lld T_metrics_real.
Import ListNotations.
Local Open Scope R_scope.

(* ---- the merge helpers: densify commutes with them and their outputs are canonical ---------- *)
Theorem C13_sum_densify :
  forall (a b : rvec) (n : nat), canonical a -> canonical b -> below n a -> below n b ->
    densify RNum n (sparse_sum RNum a b) = zipw RNum Rplus (densify RNum n a) (densify RNum n b) /\
    canonical (sparse_sum RNum a b) /\ below n (sparse_sum RNum a b).
Proof. exact sum_densify. Qed.
Print Assumptions C13_sum_densify.

Theorem C13_diff_densify :
  forall (a b : rvec) (n : nat), canonical a -> canonical b -> below n a -> below n b ->
    densify RNum n (sparse_diff RNum a b) = zipw RNum Rminus (densify RNum n a) (densify RNum n b) /\
    canonical (sparse_diff RNum a b) /\ below n (sparse_diff RNum a b).
Proof. exact diff_densify. Qed.
Print Assumptions C13_diff_densify.

Theorem C13_mul_densify :
  forall (a b : rvec) (n : nat), canonical a -> canonical b -> below n a -> below n b ->
    densify RNum n (sparse_mul RNum a b) = zipw RNum Rmult (densify RNum n a) (densify RNum n b) /\
    canonical (sparse_mul RNum a b) /\ below n (sparse_mul RNum a b).
Proof. exact mul_densify. Qed.
Print Assumptions C13_mul_densify.

Theorem C13_union_intersect :
  forall a b : list nat, isorted 0 a -> isorted 0 b ->
    isorted 0 (arr_union a b) /\ isorted 0 (arr_intersect a b) /\
    (forall t, memb t (arr_union a b) = memb t a || memb t b) /\
    (forall t, memb t (arr_intersect a b) = memb t a && memb t b).
Proof. exact union_inter_char. Qed.
Print Assumptions C13_union_intersect.

Theorem C13_counts :
  forall (a b : rvec) (n : nat), canonical a -> canonical b -> below n a -> below n b ->
    n_union RNum a b = Z.of_nat (nor RNum (densify RNum n a) (densify RNum n b)) /\
    n_inter RNum a b = Z.of_nat (ntt RNum (densify RNum n a) (densify RNum n b)) /\
    n_neq RNum a b = Z.of_nat (nneq RNum (densify RNum n a) (densify RNum n b)).
Proof. intros a b n Ca Cb Ba Bb. split; [exact (n_union_dense a b n Ca Cb Ba Bb) | split; [exact (n_inter_dense a b n Ca Cb Ba Bb) | exact (n_neq_dense a b n Ca Cb Ba Bb)]]. Qed.
Print Assumptions C13_counts.

(* ---- sparse metric = dense metric on the densified vectors ----------------------------------- *)
Theorem C13_euclidean :
  forall (a b : rvec) (n : nat), canonical a -> canonical b -> below n a -> below n b ->
    sparse_euclidean RNum a b = dense_euclidean RNum (densify RNum n a) (densify RNum n b).
Proof. exact sparse_euclidean_eq_dense. Qed.
Print Assumptions C13_euclidean.

Theorem C13_manhattan :
  forall (a b : rvec) (n : nat), canonical a -> canonical b -> below n a -> below n b ->
    sparse_manhattan RNum a b = dense_manhattan RNum (densify RNum n a) (densify RNum n b).
Proof. exact sparse_manhattan_eq_dense. Qed.
Print Assumptions C13_manhattan.

Theorem C13_chebyshev :
  forall (a b : rvec) (n : nat), canonical a -> canonical b -> below n a -> below n b ->
    sparse_chebyshev RNum a b = dense_chebyshev RNum (densify RNum n a) (densify RNum n b).
Proof. exact sparse_chebyshev_eq_dense. Qed.
Print Assumptions C13_chebyshev.

Theorem C13_canberra :
  forall (a b : rvec) (n : nat), canonical a -> canonical b -> below n a -> below n b ->
    sparse_canberra RNum a b = dense_canberra RNum (densify RNum n a) (densify RNum n b).
Proof. exact sparse_canberra_eq_dense. Qed.
Print Assumptions C13_canberra.

Theorem C13_braycurtis :
  forall (a b : rvec) (n : nat), canonical a -> canonical b -> below n a -> below n b ->
    sparse_bray_curtis RNum a b = dense_braycurtis RNum (densify RNum n a) (densify RNum n b).
Proof. exact sparse_bray_curtis_eq_dense. Qed.
Print Assumptions C13_braycurtis.

Theorem C13_jaccard :
  forall (a b : rvec) (n : nat), canonical a -> canonical b -> below n a -> below n b ->
    sparse_jaccard RNum a b = dense_jaccard RNum (densify RNum n a) (densify RNum n b).
Proof. exact sparse_jaccard_eq_dense. Qed.
Print Assumptions C13_jaccard.

Theorem C13_dice :
  forall (a b : rvec) (n : nat), canonical a -> canonical b -> below n a -> below n b ->
    sparse_dice RNum a b = dense_dice RNum (densify RNum n a) (densify RNum n b).
Proof. exact sparse_dice_eq_dense. Qed.
Print Assumptions C13_dice.

Theorem C13_sokalsneath :
  forall (a b : rvec) (n : nat), canonical a -> canonical b -> below n a -> below n b ->
    sparse_sokal_sneath RNum a b = dense_sokalsneath RNum (densify RNum n a) (densify RNum n b).
Proof. exact sparse_sokal_sneath_eq_dense. Qed.
Print Assumptions C13_sokalsneath.

Theorem C13_cosine :
  forall (a b : rvec) (n : nat), canonical a -> canonical b -> below n a -> below n b ->
    sparse_cosine RNum a b = dense_cosine RNum (densify RNum n a) (densify RNum n b).
Proof. exact sparse_cosine_eq_dense. Qed.
Print Assumptions C13_cosine.

Theorem C13_minkowski :
  forall (a b : rvec) (n : nat) (p : R), p <> 0 -> canonical a -> canonical b -> below n a -> below n b ->
    sparse_minkowski RNum p a b = dense_minkowski RNum p (densify RNum n a) (densify RNum n b).
Proof. intros a b n p Hp Ca Cb Ba Bb. exact (sparse_minkowski_eq_dense a b n Ca Cb Ba Bb p Hp). Qed.
Print Assumptions C13_minkowski.

Theorem C13_hamming :
  forall (a b : rvec) (n : nat), (0 < n)%nat -> canonical a -> canonical b -> below n a -> below n b ->
    sparse_hamming RNum a b n = dense_hamming RNum (densify RNum n a) (densify RNum n b).
Proof. intros a b n _. exact (sparse_hamming_eq_dense a b n). Qed.
Print Assumptions C13_hamming.

Theorem C13_matching :
  forall (a b : rvec) (n : nat), (0 < n)%nat -> canonical a -> canonical b -> below n a -> below n b ->
    sparse_matching RNum a b n = dense_matching RNum (densify RNum n a) (densify RNum n b).
Proof. intros a b n _. exact (sparse_matching_eq_dense a b n). Qed.
Print Assumptions C13_matching.

Theorem C13_kulsinski :
  forall (a b : rvec) (n : nat), (0 < n)%nat -> canonical a -> canonical b -> below n a -> below n b ->
    sparse_kulsinski RNum a b n = dense_kulsinski RNum (densify RNum n a) (densify RNum n b).
Proof. intros a b n _. exact (sparse_kulsinski_eq_dense a b n). Qed.
Print Assumptions C13_kulsinski.

Theorem C13_rogerstanimoto :
  forall (a b : rvec) (n : nat), (0 < n)%nat -> canonical a -> canonical b -> below n a -> below n b ->
    sparse_rogers_tanimoto RNum a b n = dense_rogerstanimoto RNum (densify RNum n a) (densify RNum n b).
Proof. intros a b n _. exact (sparse_rogers_tanimoto_eq_dense a b n). Qed.
Print Assumptions C13_rogerstanimoto.

Theorem C13_russellrao :
  forall (a b : rvec) (n : nat), (0 < n)%nat -> canonical a -> canonical b -> below n a -> below n b ->
    sparse_russellrao RNum a b n = dense_russellrao RNum (densify RNum n a) (densify RNum n b).
Proof. intros a b n _. exact (sparse_russellrao_eq_dense a b n). Qed.
Print Assumptions C13_russellrao.

Theorem C13_sokalmichener :
  forall (a b : rvec) (n : nat), (0 < n)%nat -> canonical a -> canonical b -> below n a -> below n b ->
    sparse_sokal_michener RNum a b n = dense_sokalmichener RNum (densify RNum n a) (densify RNum n b).
Proof. intros a b n _. exact (sparse_sokal_michener_eq_dense a b n). Qed.
Print Assumptions C13_sokalmichener.

Theorem C13_hellinger :
  forall (a b : rvec) (n : nat), canonical a -> canonical b -> below n a -> below n b -> nonneg a -> nonneg b ->
    sparse_hellinger RNum a b = dense_hellinger RNum (densify RNum n a) (densify RNum n b) /\
    accum RNum sqrt (vals RNum (sparse_mul RNum a b)) <= sqrt (accum RNum (idf RNum) (vals RNum a) * accum RNum (idf RNum) (vals RNum b)).
Proof. intros a b n Ca Cb Ba Bb Na Nb. split; [exact (sparse_hellinger_eq_dense a b n Ca Cb Ba Bb Na Nb) | exact (hellinger_clamp_unreachable a b n Ca Cb Ba Bb Na Nb)]. Qed.
Print Assumptions C13_hellinger.

(* ---- ll_dirichlet: the two texts select their terms differently (dense: products / values > 0.9; sparse: every stored value,
   every non-zero product; only the sparse one returns early on a zero total), so the statement needs the hypotheses under which
   the selections coincide: no empty row, every stored value > 0.9 (lld_big), every coordinate-wise product 0 or > 0.9 (lld_prod).
   C13_ll_dirichlet_counts: they hold for count data (stored values >= 1).  E: any interpretation of pi / int(). ---- *)
Theorem C13_ll_dirichlet :
  forall (E : Ext RNum) (a b : rvec) (n : nat), canonical a -> canonical b -> below n a -> below n b ->
    a <> [] -> b <> [] -> lld_big a -> lld_big b -> lld_prod a b ->
    sparse_ll_dirichlet RNum E a b = d_ll_dirichlet RNum E (densify RNum n a) (densify RNum n b).
Proof. exact sparse_ll_dirichlet_eq_dense. Qed.
Print Assumptions C13_ll_dirichlet.

Theorem C13_ll_dirichlet_counts :
  forall (E : Ext RNum) (a b : rvec) (n : nat), canonical a -> canonical b -> below n a -> below n b ->
    a <> [] -> b <> [] -> Forall (fun e => 1 <= snd e) a -> Forall (fun e => 1 <= snd e) b ->
    sparse_ll_dirichlet RNum E a b = d_ll_dirichlet RNum E (densify RNum n a) (densify RNum n b).
Proof. exact sparse_ll_dirichlet_eq_dense_counts. Qed.
Print Assumptions C13_ll_dirichlet_counts.

(* outside that class the statement is false: a stored value <= 0.9 facing a zero (rows (0.5, 0) / (0, 1): sparse 0, dense > 0), and
   exactly one empty row (rows () / (1): sparse 1e8, dense 0 over R -- the implementation's dense function divides by the zero total) *)
Theorem C13_ll_dirichlet_refuted_small :
  canonical lld_wit_a /\ canonical lld_wit_b /\ below 2 lld_wit_a /\ below 2 lld_wit_b /\
  lld_wit_a <> [] /\ lld_wit_b <> [] /\ lld_big lld_wit_b /\ lld_prod lld_wit_a lld_wit_b /\
  sparse_ll_dirichlet RNum RExt lld_wit_a lld_wit_b = 0 /\
  0 < d_ll_dirichlet RNum RExt (densify RNum 2 lld_wit_a) (densify RNum 2 lld_wit_b).
Proof. exact sparse_ll_dirichlet_refuted_small. Qed.
Print Assumptions C13_ll_dirichlet_refuted_small.

Theorem C13_ll_dirichlet_refuted_empty :
  canonical [] /\ canonical lld_wit_c /\ below 1 [] /\ below 1 lld_wit_c /\ lld_big [] /\ lld_big lld_wit_c /\ lld_prod [] lld_wit_c /\
  sparse_ll_dirichlet RNum RExt [] lld_wit_c = 100000000 /\
  d_ll_dirichlet RNum RExt (densify RNum 1 []) (densify RNum 1 lld_wit_c) = 0.
Proof. exact sparse_ll_dirichlet_refuted_empty. Qed.
Print Assumptions C13_ll_dirichlet_refuted_empty.

Theorem C13_ll_dirichlet_refuted :
  exists (a b : rvec) (n : nat), canonical a /\ canonical b /\ below n a /\ below n b /\
    sparse_ll_dirichlet RNum RExt a b <> d_ll_dirichlet RNum RExt (densify RNum n a) (densify RNum n b).
Proof. exact sparse_ll_dirichlet_refuted. Qed.
Print Assumptions C13_ll_dirichlet_refuted.

(* ---- correlation: proved for the repaired function, refuted for the unrepaired one ------------- *)
Theorem C13_correlation :
  forall (a b : rvec) (n : nat), (0 < n)%nat -> canonical a -> canonical b -> below n a -> below n b ->
    sparse_correlation RNum a b n = dense_correlation RNum (densify RNum n a) (densify RNum n b).
Proof. intros a b n _. exact (sparse_correlation_eq_dense a b n). Qed.
Print Assumptions C13_correlation.

Theorem C13_correlation_orig_refuted :
  canonical wit_a /\ canonical wit_b /\ below 3 wit_a /\ below 3 wit_b /\
    sparse_correlation_orig RNum wit_a wit_b 3 = 1 /\
    dense_correlation RNum (densify RNum 3 wit_a) (densify RNum 3 wit_b) = 3 / 2 /\
    sparse_correlation RNum wit_a wit_b 3 = 3 / 2.
Proof. exact sparse_correlation_orig_refuted. Qed.
Print Assumptions C13_correlation_orig_refuted.

Theorem C13_correlation_orig_refuted_empty :
  canonical [] /\ canonical wit_c /\ below 1 wit_c /\
    sparse_correlation_orig RNum [] wit_c 1 = 1 /\
    dense_correlation RNum (densify RNum 1 []) (densify RNum 1 wit_c) = 0 /\
    sparse_correlation RNum [] wit_c 1 = 0.
Proof. exact sparse_correlation_orig_refuted_empty. Qed.
Print Assumptions C13_correlation_orig_refuted_empty.

(* ---- the dense side of every statement above is C12's specification of the dense function (model/M_metrics.v) ---- *)
Theorem C13_dense_is_C12 : forall x y : list R, length x = length y ->
  dense_euclidean RNum x y = d_euclidean RNum x y /\ dense_manhattan RNum x y = d_manhattan RNum x y /\
  dense_chebyshev RNum x y = d_chebyshev RNum x y /\ (forall p, dense_minkowski RNum p x y = d_minkowski RNum p x y) /\
  dense_canberra RNum x y = d_canberra RNum x y /\ dense_braycurtis RNum x y = d_braycurtis RNum x y /\
  dense_hamming RNum x y = d_hamming RNum x y /\ dense_jaccard RNum x y = d_jaccard RNum x y /\
  dense_dice RNum x y = d_dice RNum x y /\ dense_matching RNum x y = d_matching RNum x y /\
  dense_kulsinski RNum x y = d_kulsinski RNum x y /\ dense_rogerstanimoto RNum x y = d_rogerstanimoto RNum x y /\
  dense_russellrao RNum x y = d_russellrao RNum x y /\ dense_sokalmichener RNum x y = d_sokalmichener RNum x y /\
  dense_sokalsneath RNum x y = d_sokalsneath RNum x y /\ dense_cosine RNum x y = d_cosine RNum x y /\
  dense_correlation RNum x y = d_correlation RNum x y /\ dense_hellinger RNum x y = d_hellinger RNum x y.
Proof. exact dense_is_C12. Qed.
Print Assumptions C13_dense_is_C12.

(* hypotheses are satisfiable by a non-trivial pair *)
Example C13_nonvacuous :
  canonical wit_a /\ canonical wit_b /\ below 3 wit_a /\ below 3 wit_b /\
  sparse_euclidean RNum wit_a wit_b = 3 /\ sparse_jaccard RNum wit_a wit_b = 2 / 3.
Proof. exact sparse_nonvacuous. Qed.
Print Assumptions C13_nonvacuous.

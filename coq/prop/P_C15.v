(* C15 — property statements only.  The eigen-solver is never an axiom: it is a universally quantified
   function [solve] constrained by the hypothesis [solve_spec] (what ARPACK / LOBPCG are trusted to return). *)
From Coq Require Import List ZArith Reals.
From UV Require Import Num M_spectral T_spectral.
Import ListNotations.
Local Open Scope R_scope.

(* sqrt(deg) is an eigenvector of L = I - D^-1/2 A D^-1/2 for the eigenvalue 0 (every size n, every symmetric A) *)
Theorem C15_trivial : forall n (A : nat -> nat -> R),
  symmetric n A -> positive_degrees n A ->
  forall i, (i < n)%nat -> mulmv RNum n (laplacian RNum n A) (sqrt_deg RNum n A) i = 0.
Proof. exact trivial_eigvec. Qed.
Print Assumptions C15_trivial.

(* x^T L x = 1/2 sum_ij A_ij (x_i/sqrt d_i - x_j/sqrt d_j)^2 >= 0 *)
Theorem C15_psd : forall n (A : nat -> nat -> R) (x : nat -> R),
  symmetric n A -> positive_degrees n A -> nonneg_weights n A ->
  dot RNum n x (mulmv RNum n (laplacian RNum n A) x) =
    / 2 * Rsum (fun i => Rsum (fun j =>
        A i j * ((x i / sqrt_deg RNum n A i - x j / sqrt_deg RNum n A j)
                 * (x i / sqrt_deg RNum n A i - x j / sqrt_deg RNum n A j))) n) n
  /\ 0 <= dot RNum n x (mulmv RNum n (laplacian RNum n A) x).
Proof. intros; split; [apply laplacian_quadratic_form | apply laplacian_psd]; assumption. Qed.
Print Assumptions C15_psd.

(* order = argsort(eigenvalues)[1:k]: exactly dim distinct columns; column j is an eigenpair handed over by the solver
   whose eigenvalue has exactly j+1 smaller ones among the k returned (the 2nd ... (dim+1)-th smallest), is positive,
   and whose eigenvector is orthogonal to sqrt(deg) *)
Theorem C15_select : forall n (A : nat -> nat -> R) dim (evals : list R) (V : nat -> nat -> R),
  symmetric n A -> nonneg_weights n A -> positive_degrees n A ->
  solve_spec n (laplacian RNum n A) (S dim) evals V -> NoDup evals ->
  let cols := select_cols RNum evals (S dim) in
  length cols = dim /\ NoDup cols /\
  forall j, (j < dim)%nat ->
    let c := nth j cols 0%nat in
    (c < S dim)%nat /\
    eigenpair n (laplacian RNum n A) (nth c evals 0) (col RNum V c) /\
    count_lt evals (nth c evals 0) = S j /\
    0 < nth c evals 0 /\
    dot RNum n (col RNum V c) (sqrt_deg RNum n A) = 0.
Proof. exact select_cols_spec. Qed.
Print Assumptions C15_select.

(* the connected-graph path of _spectral_layout, for any solver meeting solve_spec on this call *)
Theorem C15_layout : forall (solve : (nat -> nat -> R) -> nat -> nat -> list R * (nat -> nat -> R))
                            n (A : nat -> nat -> R) dim,
  symmetric n A -> nonneg_weights n A -> positive_degrees n A ->
  solve_spec n (laplacian RNum n A) (S dim) (fst (solve (laplacian RNum n A) n (S dim)))
             (snd (solve (laplacian RNum n A) n (S dim))) ->
  NoDup (fst (solve (laplacian RNum n A) n (S dim))) ->
  let out := spectral_connected RNum solve n A dim in
  length out = dim /\
  forall j, (j < dim)%nat -> exists lam,
    eigenpair n (laplacian RNum n A) lam (nth j out (fun _ => 0)) /\
    0 < lam /\
    count_lt (fst (solve (laplacian RNum n A) n (S dim))) lam = S j /\
    dot RNum n (nth j out (fun _ => 0)) (sqrt_deg RNum n A) = 0.
Proof. exact spectral_connected_spec. Qed.
Print Assumptions C15_layout.

(* eigenvalue 0 is simple on a connected graph: an eigenvector for 0 is a multiple of sqrt(deg) *)
Theorem C15_kernel : forall n (A : nat -> nat -> R) (x : nat -> R),
  symmetric n A -> positive_degrees n A -> nonneg_weights n A -> connected n A ->
  eigenpair n (laplacian RNum n A) 0 x ->
  forall i, (i < n)%nat -> x i = x 0%nat / sqrt_deg RNum n A 0%nat * sqrt_deg RNum n A i.
Proof. exact kernel_span. Qed.
Print Assumptions C15_kernel.

(* repaired selection (drop the column parallel to sqrt(deg) only if the solver returned it, keep the first dim):
   exactly dim distinct columns; column j is a solver eigenpair with a positive eigenvalue, the (j+1)-th smallest
   positive one handed back, orthogonal to sqrt(deg) -- whether or not the solver returned the trivial pair;
   and it coincides with argsort[1:k] whenever the solver did return the trivial pair *)
Theorem C15_select_nontrivial : forall n (A : nat -> nat -> R) dim (evals : list R) (V : nat -> nat -> R),
  symmetric n A -> nonneg_weights n A -> positive_degrees n A -> connected n A ->
  solve_spec n (laplacian RNum n A) (S dim) evals V -> NoDup evals ->
  let cols := select_nontrivial RNum n (sqrt_deg RNum n A) evals V dim in
  length cols = dim /\ NoDup cols /\
  (In 0 evals -> cols = select_cols RNum evals (S dim)) /\
  forall j, (j < dim)%nat ->
    let c := nth j cols 0%nat in
    (c < S dim)%nat /\
    eigenpair n (laplacian RNum n A) (nth c evals 0) (col RNum V c) /\
    0 < nth c evals 0 /\
    count_pos_lt evals (nth c evals 0) = j /\
    dot RNum n (col RNum V c) (sqrt_deg RNum n A) = 0.
Proof. exact select_nontrivial_spec. Qed.
Print Assumptions C15_select_nontrivial.

Theorem C15_layout_nontrivial : forall (solve : (nat -> nat -> R) -> nat -> nat -> list R * (nat -> nat -> R))
                            n (A : nat -> nat -> R) dim,
  symmetric n A -> nonneg_weights n A -> positive_degrees n A -> connected n A ->
  solve_spec n (laplacian RNum n A) (S dim) (fst (solve (laplacian RNum n A) n (S dim)))
             (snd (solve (laplacian RNum n A) n (S dim))) ->
  NoDup (fst (solve (laplacian RNum n A) n (S dim))) ->
  let out := spectral_connected_nt RNum solve n A dim in
  length out = dim /\
  forall j, (j < dim)%nat -> exists lam,
    eigenpair n (laplacian RNum n A) lam (nth j out (fun _ => 0)) /\
    0 < lam /\
    count_pos_lt (fst (solve (laplacian RNum n A) n (S dim))) lam = j /\
    dot RNum n (nth j out (fun _ => 0)) (sqrt_deg RNum n A) = 0.
Proof. exact spectral_connected_nt_spec. Qed.
Print Assumptions C15_layout_nontrivial.

(* the legacy selection order = argsort(eigenvalues)[1:k] (unrepaired source): whenever the solver hands back k pairs,
   the pair with the smallest returned eigenvalue is left out although it is smaller than every selected one ... *)
Theorem C15_legacy_drops_smallest : forall (evals : list R) dim,
  length evals = S dim -> NoDup evals ->
  let c0 := nth 0 (argsort RNum evals) 0%nat in
  (c0 < S dim)%nat /\ ~ In c0 (select_cols RNum evals (S dim)) /\
  forall c, In c (select_cols RNum evals (S dim)) -> nth c0 evals 0 < nth c evals 0.
Proof. exact legacy_selection_drops_smallest. Qed.
Print Assumptions C15_legacy_drops_smallest.

(* ... which refutes the property for the legacy selection as soon as the solver does not return the trivial pair (what
   ARPACK which="SM" does): on the unit path 0-1-2 the answer {1, 2} meets solve_spec, argsort[1:k] keeps only the
   eigenvector of 2 and drops the Fiedler vector (eigenvalue 1); the repaired selection keeps it *)
Theorem C15_legacy_refuted :
  symmetric 3 A3 /\ nonneg_weights 3 A3 /\ positive_degrees 3 A3 /\ connected 3 A3 /\
  solve_spec 3 (laplacian RNum 3 A3) 2 [1; 2] V3 /\ NoDup [1; 2] /\
  select_cols RNum [1; 2] 2 = [1%nat] /\
  0 < nth 0 [1; 2] 0 < nth 1 [1; 2] 0 /\
  select_nontrivial RNum 3 (sqrt_deg RNum 3 A3) [1; 2] V3 1 = [0%nat].
Proof. exact legacy_selection_refuted. Qed.
Print Assumptions C15_legacy_refuted.

(* centres of the components for 2 <= n_components <= 2*dim (rows +-e_i): pairwise distinct, so the spacing data_range
   exists (NumPy's min over the positive distances is not over an empty selection) and is positive *)
Theorem C15_meta : forall ncomp dim c, (2 <= ncomp)%nat -> (ncomp <= 2 * dim)%nat -> (c < ncomp)%nat ->
  (forall c', (c' < ncomp)%nat -> c <> c' ->
     0 < eucl RNum (nth c (meta_embedding RNum ncomp dim) []) (nth c' (meta_embedding RNum ncomp dim) [])) /\
  exists r, data_range RNum (meta_dists RNum (meta_embedding RNum ncomp dim) c) = Some r /\ 0 < r.
Proof. intros ncomp dim c H2 Hn Hc; split; [intros c' Hc' Hne; apply meta_rows_distinct; assumption | apply meta_data_range_pos; assumption]. Qed.
Print Assumptions C15_meta.

(* multi-component write-back: every vertex row is written exactly once, with the row of its own component's block
   at the vertex's rank inside the component *)
Theorem C15_assign : forall (X : Type) (labels : list nat) (ncomp : nat) (blocks : nat -> list X) (d : X),
  (forall v, (v < length labels)%nat -> (nth v labels O < ncomp)%nat) ->
  (forall c, (c < ncomp)%nat -> length (blocks c) = count_label labels c) ->
  length (assign_components labels ncomp blocks) = length labels /\
  forall v, (v < length labels)%nat ->
    nth v (assign_components labels ncomp blocks) [] = [nth (rank_in labels v) (blocks (nth v labels O)) d].
Proof. intros X; exact (@assign_total X). Qed.
Print Assumptions C15_assign.

(* hypotheses of C15_select are met by a concrete graph / solver answer handed over in non-ascending order *)
Example C15_nonvacuous :
  symmetric 2 A2 /\ nonneg_weights 2 A2 /\ positive_degrees 2 A2 /\
  solve_spec 2 (laplacian RNum 2 A2) 2 [2; 0] V2 /\ NoDup [2; 0] /\ select_cols RNum [2; 0] 2 = [0%nat].
Proof. exact select_nonvacuous. Qed.
Print Assumptions C15_nonvacuous.

(* C19 — property statements only (Procrustes pre-alignment is rigid; MathComp, any commutative ring). *)
From mathcomp Require Import all_ssreflect all_algebra.
From UV Require Import M_rigid T_rigid.
Import GRing.Theory.
Local Open Scope ring_scope.

(* R = U @ V is orthogonal when the SVD factors are *)
Theorem C19_orth_mul : forall (F : comRingType) (d : nat) (U V : 'M[F]_d),
  orthogonal U -> orthogonal V -> orthogonal (procrustes_rot U V).
Proof. exact orth_mul. Qed.
Print Assumptions C19_orth_mul.

(* an orthogonal map preserves the Gram matrix: (X R)(Y R)^T = X Y^T *)
Theorem C19_rigid : forall (F : comRingType) (d : nat) (R : 'M[F]_d) (n m : nat) (X : 'M[F]_(n, d)) (Y : 'M[F]_(m, d)),
  orthogonal R -> gram (align X R) (align Y R) = gram X Y.
Proof. exact rigid_preserves_gram. Qed.
Print Assumptions C19_rigid.

(* hence every pairwise (squared) distance between samples of the aligned layout is unchanged *)
Theorem C19_rigid_distances : forall (F : comRingType) (d : nat) (R : 'M[F]_d) (n : nat) (E : 'M[F]_(n, d)) i j,
  orthogonal R -> sqdist (row i (align E R)) (row j (align E R)) = sqdist (row i E) (row j E).
Proof. exact align_rows_sqdist. Qed.
Print Assumptions C19_rigid_distances.

Example C19_rigid_nonvacuous :
  let R : 'M[int]_2 := \matrix_(i, j) (if (i == 0) && (j == 1) then 1 else if (i == 1) && (j == 0) then -1 else 0) in
  orthogonal R /\ R != 1%:M.
Proof. exact quarter_turn_orthogonal. Qed.
Print Assumptions C19_rigid_nonvacuous.

(* C19 — property statements only (relation expansion; nat / option / list).
   [expand] models expand_relations with the repaired end-of-sequence bound, [expand_orig] the
   original one; [entry T i c k] is result[i, c, k] (Some None = -1); column w is the centre. *)
From Coq Require Import List Arith.
From UV Require Import M_relations T_relations.
Import ListNotations.

(* no IndexError; shape (n_datasets, 2w+1, max_n_samples) *)
Theorem C19_shape : forall (ds : list dict) w, nonempty ds ->
  exists T, expand ds w = Ok T /\ length T = length ds + 1 /\
    (forall rows, In rows T -> length rows = 2 * w + 1 /\
       forall row, In row rows -> length row = max_n_samples ds).
Proof. exact expand_shape. Qed.
Print Assumptions C19_shape.

(* forward: within the window, sample k of dataset i is related to the sample reached by following
   relations i, i+1, ..., i+t-1 whenever dataset i+t exists (the last dataset included), else -1 *)
Theorem C19_fwd : forall (ds : list dict) w T i t k, nonempty ds -> expand ds w = Ok T ->
  1 <= t <= w -> i <= length ds -> k < max_n_samples ds ->
  entry T i (w + t) k = Some (if Nat.leb (i + t) (length ds) then compose_fwd ds i t k else None).
Proof. exact expand_fwd_spec. Qed.
Print Assumptions C19_fwd.

(* backward: by following the inverse relations i-1, ..., i-t whenever dataset i-t exists, else -1 *)
Theorem C19_bwd : forall (ds : list dict) w T i t k, nonempty ds -> Forall injective ds -> expand ds w = Ok T ->
  1 <= t <= w -> i <= length ds -> k < max_n_samples ds ->
  entry T i (w - t) k = Some (if Nat.leb t i then compose_bwd ds i t k else None).
Proof. exact expand_bwd_spec. Qed.
Print Assumptions C19_bwd.

(* round trip of the compositions themselves *)
Theorem C19_roundtrip : forall (ds : list dict), Forall injective ds -> forall t i k m, i + t <= length ds ->
  compose_fwd ds i t k = Some m -> compose_bwd ds (i + t) t m = Some k.
Proof. exact compose_roundtrip. Qed.
Print Assumptions C19_roundtrip.

(* round trip on the tensor: k in dataset i related forward to m in dataset i+t  ==>  m related backward to k *)
Theorem C19_roundtrip_tensor : forall (ds : list dict) w T i t k m, nonempty ds -> Forall injective ds -> expand ds w = Ok T ->
  1 <= t <= w -> i <= length ds -> k < max_n_samples ds ->
  entry T i (w + t) k = Some (Some m) ->
  i + t <= length ds /\ m < max_n_samples ds /\ entry T (i + t) (w - t) m = Some (Some k).
Proof. exact fwd_bwd_roundtrip. Qed.
Print Assumptions C19_roundtrip_tensor.

Theorem C19_roundtrip_tensor_back : forall (ds : list dict) w T i t k m, nonempty ds -> Forall injective ds -> expand ds w = Ok T ->
  1 <= t <= w -> i <= length ds -> m < max_n_samples ds ->
  entry T i (w - t) m = Some (Some k) ->
  t <= i /\ entry T (i - t) (w + t) k = Some (Some m).
Proof. exact bwd_fwd_roundtrip. Qed.
Print Assumptions C19_roundtrip_tensor_back.

(* no relation is dropped at the ends of the sequence: every item of every dictionary (first and last
   included) is present forward in its source dataset and backward in its target dataset *)
Theorem C19_no_end_drop : forall (ds : list dict) w T i k m, nonempty ds -> Forall injective ds -> expand ds w = Ok T ->
  1 <= w -> i < length ds -> get (nth i ds []) k = Some m ->
  entry T i (w + 1) k = Some (Some m) /\ entry T (i + 1) (w - 1) m = Some (Some k).
Proof. exact no_end_drop. Qed.
Print Assumptions C19_no_end_drop.

(* empty sequence / empty dictionary: ValueError (max() of an empty sequence), in both variants *)
Theorem C19_empty_is_error : forall rp (ds : list dict) w, ~ nonempty ds -> expand_gen rp ds w = ValueErr.
Proof. exact expand_gen_error. Qed.
Print Assumptions C19_empty_is_error.

(* the ORIGINAL bound `i + j + 1 >= len(relation_dicts)`: every forward relation ending in the last
   dataset is dropped (all sequences, all windows) — hence C19_fwd is false of the original code *)
Theorem C19_orig_bound_drops_last : forall (ds : list dict) w T i t k, nonempty ds -> expand_orig ds w = Ok T ->
  1 <= t <= w -> i + t = length ds -> k < max_n_samples ds ->
  entry T i (w + t) k = Some None.
Proof. exact orig_drops_last_dataset. Qed.
Print Assumptions C19_orig_bound_drops_last.

Theorem C19_fwd_refuted_on_orig :
  exists ds w T i t k, nonempty ds /\ Forall injective ds /\ expand_orig ds w = Ok T /\
    1 <= t <= w /\ i + t <= length ds /\ k < max_n_samples ds /\
    entry T i (w + t) k <> Some (compose_fwd ds i t k).
Proof. exact expand_fwd_spec_refuted. Qed.
Print Assumptions C19_fwd_refuted_on_orig.

Example C19_nonvacuous :
  let ds := [[(0, 1); (1, 0)]; [(0, 0); (1, 2)]] in
  nonempty ds /\ Forall injective ds /\
  exists T, expand ds 2 = Ok T /\ entry T 0 4 0 = Some (Some 2) /\ entry T 2 0 2 = Some (Some 0).
Proof. exact relations_nonvacuous. Qed.
Print Assumptions C19_nonvacuous.

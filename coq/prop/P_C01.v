(* C01 — property statements only.  [tol] = SMOOTH_K_TOLERANCE, [kscale] = MIN_K_DIST_SCALE
   (any positive values; the current source values are checked positive on every run). *)
From Coq Require Import List ZArith Reals Sorting.Sorted.
From UV Require Import Num M_smooth T_smooth T_smooth_conv.
Import ListNotations.
Local Open Scope R_scope.

(* strengths: in (0,1]; exactly 1 iff the neighbour is within rho; non-increasing in distance *)
Theorem C01_strengths : forall d d' rho sigma, 0 < sigma ->
  0 < mem RNum d rho sigma <= 1 /\
  (mem RNum d rho sigma = 1 <-> d <= rho) /\
  (d <= d' -> mem RNum d' rho sigma <= mem RNum d rho sigma).
Proof. intros d d' rho sigma H. split; [exact (mem_range d rho sigma H) | split;
  [exact (mem_one_iff d rho sigma H) | exact (mem_antitone d d' rho sigma H)]]. Qed.
Print Assumptions C01_strengths.

(* local connectivity: the first floor(lc) = S i nearest non-zero-distance neighbours, and every
   zero-distance neighbour, have strength exactly 1 (row = finite part of the kNN row, ascending) *)
Theorem C01_local_connectivity : forall tol row ninf i interp sigma, 0 < tol ->
  StronglySorted Rle row -> 0 <= interp <= 1 -> 0 < sigma ->
  (S i <= length (nonzero RNum row))%nat ->
  (tol < interp -> (S (S i) <= length (nonzero RNum row))%nat) ->
  ge_lc RNum (length (nonzero RNum row) + ninf) (S i) interp = true ->
  let rho := rho_of RNum tol row ninf (S i) interp in
  (forall p, (p <= i)%nat -> mem RNum (nth p (nonzero RNum row) 0) rho sigma = 1) /\
  (forall d, d <= 0 -> mem RNum d rho sigma = 1).
Proof. intros tol row ninf i interp sigma Ht. exact (local_connectivity tol row ninf i interp sigma). Qed.
Print Assumptions C01_local_connectivity.

(* the bandwidth: positive, explicitly bounded (hence finite), never below the floor; when the search
   stopped on its tolerance test the un-floored value calibrates the row to within tol *)
Theorem C01_bandwidth : forall tol kscale n_iter target mean_all row ninf index interp,
  let '(sigma, rho, brk) := smooth_row RNum tol kscale n_iter target mean_all row ninf index interp in
  / 2 ^ n_iter <= sigma /\
  sigma <= Rmax (2 ^ n_iter) (kscale * (if Rltb 0 rho then mean RNum row else mean_all)) /\
  kscale * (if Rltb 0 rho then mean RNum row else mean_all) <= sigma /\
  (brk = true -> exists s, Rabs (psum RNum row rho s - target) < tol /\ / 2 ^ n_iter <= s <= 2 ^ n_iter /\
                           sigma = floor_sigma RNum kscale s rho (mean RNum row) mean_all).
Proof. exact bandwidth_bounds. Qed.
Print Assumptions C01_bandwidth.

(* the total is non-decreasing in the bandwidth and lies in [0, k-1] *)
Theorem C01_psum : forall row rho s1 s2, 0 < s1 <= s2 ->
  psum RNum row rho s1 <= psum RNum row rho s2 /\ 0 <= psum RNum row rho s1 <= INR (length (tl row)).
Proof. intros row rho s1 s2 H. split; [exact (psum_mono row rho s1 s2 H) | apply psum_range; tauto]. Qed.
Print Assumptions C01_psum.

(* scale: rho is homogeneous of degree 1; rescaling distances and bandwidth together leaves the total
   and every strength unchanged (so calibrated bandwidths of c*row are exactly c times those of row) *)
Theorem C01_scale : forall tol c row ninf index interp sigma, 0 < c -> sigma <> 0 ->
  rho_of RNum tol (map (Rmult c) row) ninf index interp = c * rho_of RNum tol row ninf index interp /\
  psum RNum (map (Rmult c) row) (rho_of RNum tol (map (Rmult c) row) ninf index interp) (c * sigma)
    = psum RNum row (rho_of RNum tol row ninf index interp) sigma /\
  (forall d, mem RNum (c * d) (rho_of RNum tol (map (Rmult c) row) ninf index interp) (c * sigma)
             = mem RNum d (rho_of RNum tol row ninf index interp) sigma).
Proof. intros tol c row ninf index interp sigma Hc Hs. split; [exact (rho_scale tol c row ninf index interp Hc)|].
  exact (calibration_scale tol c row ninf index interp sigma Hc Hs). Qed.
Print Assumptions C01_scale.

(* convergence of the search: whenever some bandwidth sigma* in [2^-L, 2^L] attains the target total and
   n_iter >= 2L+1+J, the bandwidth found calibrates the row to within tol (search stopped on its tolerance test) or
   (k-1)/2^J (steps exhausted).  With the source's n_iter = 64: L = 20 (data scales 1e-6..1e6), J = 23. *)
Theorem C01_calibrated : forall tol row rho target sstar J L n, 0 < tol -> 0 < sstar ->
  psum RNum row rho sstar = target -> / 2 ^ L <= sstar <= 2 ^ L -> (2 * L + 1 + J <= n)%nat ->
  let s := fst (bisect RNum tol n (psum RNum row rho) target 0 None 1) in
  Rabs (psum RNum row rho s - target) < tol \/ Rabs (psum RNum row rho s - target) <= INR (length (tl row)) / 2 ^ J.
Proof. exact bisect_converges. Qed.
Print Assumptions C01_calibrated.

Example C01_nonvacuous :
  StronglySorted Rle ex_row /\ (1 <= length (nonzero RNum ex_row))%nat /\
  ge_lc RNum (length (nonzero RNum ex_row) + 0) 1 0 = true /\
  rho_of RNum (/ 100000) ex_row 0 1 0 = 1.
Proof. exact smooth_nonvacuous. Qed.
Print Assumptions C01_nonvacuous.

(* C06 — property statements only. *)
From Coq Require Import List ZArith Bool Arith Permutation.
From UV Require Import M_sgd M_repro T_repro.
Import ListNotations.

(* a seeded model always runs with one job and the serial SGD kernel, whatever n_jobs was requested *)
Theorem C06_seeded_serial : forall n_jobs,
  (resolve_jobs true n_jobs = None \/ resolve_jobs true n_jobs = Some 1%Z) /\ kernel_of (parallel_flag true) = Serial.
Proof. exact seeded_is_serial. Qed.
Print Assumptions C06_seeded_serial.

(* a loop whose iteration i writes only cell i from the inputs gives the same array under every schedule *)
Theorem C06_prange : forall (A : Type) (body : nat -> A) n order init,
  length init = n -> Permutation order (seq 0 n) -> par_for order body init = map body (seq 0 n).
Proof. intros A. exact (@prange_permutation A). Qed.
Print Assumptions C06_prange.

Theorem C06_chunks : forall c c' s R i, c <> c' -> in_chunk c s R i = true -> in_chunk c' s R i = false.
Proof. exact chunks_disjoint. Qed.
Print Assumptions C06_chunks.

Theorem C06_chunks_cover : forall s R i, 0 < s -> i < R -> in_chunk (i / s) s R i = true /\ i / s < R / s + 1.
Proof. exact chunks_cover. Qed.
Print Assumptions C06_chunks_cover.

Theorem C06_rng : forall a b c bits,
  rng_state_of (a, b, c)%Z bits = (wrap64 (a + wrap64 bits), wrap64 (b + wrap64 bits), wrap64 (c + wrap64 bits))%Z.
Proof. exact rng_state_spec. Qed.
Print Assumptions C06_rng.

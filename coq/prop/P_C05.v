(* C05 — property statements only.  PARTIAL: "finite" is a floating-point notion; what is proved is the
   absence of invalid real operations and explicit bounds for the modelled stages. *)
From Coq Require Import List ZArith Arith Reals.
From UV Require Import Num M_smooth M_sgd M_pipeline T_sgd T_pipeline.
Import ListNotations.

(* n_neighbors is always resolved to a usable value: 1 <= k' <= n-1, truncated (with a warning) iff n <= k *)
Theorem C05_resolve_k : forall n k, 2 <= n -> 2 <= k ->
  exists k' w, resolve_k n k = UseK k' w /\ 1 <= k' <= n - 1 /\ k' <= k /\ (w = true <-> n <= k).
Proof. exact resolve_k_valid. Qed.
Print Assumptions C05_resolve_k.

(* the initial layout is rescaled into [0,10] on every axis, constant axes included (no 0/0) *)
Theorem C05_rescale : forall c, Forall (fun v => (0 <= v <= 10)%R) (rescale RNum c) /\ length (rescale RNum c) = length c.
Proof. intros c. split; [exact (rescale_in_0_10 c) | exact (rescale_length c)]. Qed.
Print Assumptions C05_rescale.

(* ... which the code before the repair did not guarantee *)
Theorem C05_rescale_unguarded_refuted : exists c, c <> [] /\ rescale_unguarded RNum c = None.
Proof. exact rescale_unguarded_refuted. Qed.
Print Assumptions C05_rescale_unguarded_refuted.

(* unique=True: whenever (index, inverse) satisfy the contract the implementation's tables are checked against,
   the result has one row per input row and identical input rows get identical output rows *)
Theorem C05_unique : forall (A : Type) rows index inverse (emb : list A) d, check_unique rows index inverse = true ->
  length (expand emb inverse d) = length rows /\
  (forall i j, i < length rows -> j < length rows -> nth i rows [] = nth j rows [] ->
     nth i (expand emb inverse d) d = nth j (expand emb inverse d) d).
Proof. intros A. exact (@expand_rows A). Qed.
Print Assumptions C05_unique.

(* the SGD step never divides by zero, and (C07_clip) moves a coordinate by at most 4 alpha *)
Theorem C05_denominators : forall a b d2, (0 <= a)%R -> (0 <= d2)%R ->
  (1 <= a * Rpow d2 b + 1)%R /\ (/ 1000 <= (/ 1000 + d2) * (a * Rpow d2 b + 1))%R.
Proof. exact kernel_denominators_nonzero. Qed.
Print Assumptions C05_denominators.

Theorem C05_move_bounded : forall c x alpha, (Rabs ((c + clip RNum x * alpha) - c) <= 4 * Rabs alpha)%R.
Proof. exact move_bounded. Qed.
Print Assumptions C05_move_bounded.

(* Verdict functions for the C05 correspondence. *)
From Coq Require Import List ZArith Bool Arith PrimFloat.
From UV Require Import Num FloatFns FNum M_pipeline V_sgd.
Import ListNotations.
Open Scope float_scope.

(* columns of a user init (float32 values) and the embedding returned by fit(n_epochs=0): each axis must be the rescaled init *)
Definition verdict_rescale (tol : float) (c : list (list float) * list (list float)) : Z :=
  let '(init_cols, emb_cols) := c in
  let m := map (rescale FNum) init_cols in
  if maxdiff2 m emb_cols <=? tol then (-1)%Z else 1%Z.

Definition verdict_unique (c : list row * list nat * list nat) : Z :=
  let '(rows, index, inverse) := c in if check_unique rows index inverse then (-1)%Z else 1%Z.

Definition verdict_resolve (c : nat * nat * Z) : Z :=
  let '(n, k, impl) := c in
  match resolve_k n k with
  | Shortcut => if (impl =? -1)%Z then (-1)%Z else 1%Z
  | UseK k' _ => if (impl =? Z.of_nat k')%Z then (-1)%Z else 2%Z
  end.

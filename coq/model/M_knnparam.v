(* C20: the precomputed_knn decision chain of UMAP._validate_parameters (umap/umap_.py ~2010-2063) and the
   branch of UMAP.fit (~2403-2680) that consumes the tables.  Executable definitions only; sizes over Z.

   [validate]      = the repaired chain (pruning to n_neighbors columns is done first, unconditionally)
   [validate_orig] = the original chain (pruning is the last `elif`, skipped when the small-data `elif` fires)
   [thr] is the small-data threshold (4096), read from the current source by the harness. *)
From Coq Require Import List ZArith Bool.
Import ListNotations.
Local Open Scope Z_scope.

Inductive err := E_unique | E_indices_not_array | E_dists_not_array | E_shape_mismatch.
Inductive warnk := W_no_search_index | W_few_columns | W_wrong_rows.

Inductive decision :=
| Absent                              (* precomputed_knn[1] is None: nothing to validate *)
| Error (e : err)                     (* ValueError *)
| Ignore (w : warnk)                  (* warning; knn_indices = knn_dists = knn_search_index = None *)
| Use (cols : Z) (force : bool).      (* tables kept with [cols] columns; force_approximation_algorithm afterwards *)

Record knn_input := mkIn {
  provided : bool;      (* self.knn_dists is not None *)
  unique : bool;        (* self.unique *)
  idx_array : bool;     (* isinstance(knn_indices, np.ndarray) *)
  dist_array : bool;    (* isinstance(knn_dists, np.ndarray) *)
  same_shape : bool;    (* knn_dists.shape == knn_indices.shape *)
  has_index : bool;     (* isinstance(knn_search_index, NNDescent) *)
  cols : Z;             (* knn_dists.shape[1] *)
  rows : Z;             (* knn_dists.shape[0] *)
  n : Z;                (* self._raw_data.shape[0] *)
  k : Z;                (* self.n_neighbors *)
  force : bool          (* self.force_approximation_algorithm *)
}.

(* the ValueError prefix, lines 2011-2023 *)
Definition precheck (x : knn_input) : option err :=
  if unique x then Some E_unique
  else if negb (idx_array x) then Some E_indices_not_array
  else if negb (dist_array x) then Some E_dists_not_array
  else if negb (same_shape x) then Some E_shape_mismatch
  else None.

(* original: if cols < k / elif rows != n / elif rows < thr and not force / elif cols > k *)
Definition validate_orig (thr : Z) (x : knn_input) : decision :=
  if negb (provided x) then Absent else
  match precheck x with
  | Some e => Error e
  | None =>
    if cols x <? k x then Ignore W_few_columns
    else if negb (rows x =? n x) then Ignore W_wrong_rows
    else if (rows x <? thr) && negb (force x) then Use (cols x) true
    else if k x <? cols x then Use (k x) (force x)
    else Use (cols x) (force x)
  end.

(* repaired: `if cols > k: prune` precedes the chain if cols < k / elif rows != n / elif rows < thr and not force *)
Definition validate (thr : Z) (x : knn_input) : decision :=
  if negb (provided x) then Absent else
  match precheck x with
  | Some e => Error e
  | None =>
    let c := if k x <? cols x then k x else cols x in
    if c <? k x then Ignore W_few_columns
    else if negb (rows x =? n x) then Ignore W_wrong_rows
    else if (rows x <? thr) && negb (force x) then Use c true
    else Use c (force x)
  end.

(* warnings in emission order: the search-index warning (line 2025) precedes the chain *)
Definition warnings (thr : Z) (x : knn_input) : list warnk :=
  if negb (provided x) then [] else
  match precheck x with
  | Some _ => []
  | None => (if has_index x then [] else [W_no_search_index]) ++
            match validate thr x with Ignore w => [w] | _ => [] end
  end.

(* ---- which branch of fit builds the graph, from what ------------------------------------------------ *)
Inductive branch := B_sparse_precomputed | B_small_exact | B_standard.

(* lines 2484 / 2555 / else; [sparse_pre] = metric == "precomputed" and sparse input *)
Definition fit_branch (thr : Z) (sparse_pre : bool) (n : Z) (force' : bool) : branch :=
  if sparse_pre then B_sparse_precomputed
  else if (n <? thr) && negb force' then B_small_exact
  else B_standard.

(* self._n_neighbors, lines 2462-2475 *)
Definition k_eff (n k : Z) : Z := if n <=? k then n - 1 else k.

Inductive source :=
| Supplied (c : Z)        (* the caller's tables, first c columns *)
| OwnExact (kk : Z)       (* all pairwise distances, kk nearest *)
| OwnApprox (kk : Z)      (* NN-descent, kk neighbours *)
| OwnSparse (kk : Z).     (* row-wise argsort of the sparse distance matrix *)

Record plan := mkPlan {
  p_branch : branch;
  p_k : Z;                (* the n_neighbors argument given to fuzzy_simplicial_set *)
  p_src : source
}.

Definition plan_of (thr : Z) (sparse_pre : bool) (x : knn_input) (tables : option Z) (force' : bool) : plan :=
  let ke := k_eff (n x) (k x) in
  match fit_branch thr sparse_pre (n x) force' with
  | B_sparse_precomputed =>
      mkPlan B_sparse_precomputed (k x) (match tables with Some c => Supplied c | None => OwnSparse ke end)
  | B_small_exact => mkPlan B_small_exact ke (OwnExact ke)          (* tables, if any, would not be looked at *)
  | B_standard =>
      mkPlan B_standard (k x) (match tables with Some c => Supplied c | None => OwnApprox ke end)
  end.

(* None = fit raises *)
Definition fit_plan_with (v : Z -> knn_input -> decision) (thr : Z) (sparse_pre : bool) (x : knn_input) : option plan :=
  match v thr x with
  | Error _ => None
  | Absent | Ignore _ => Some (plan_of thr sparse_pre x None (force x))
  | Use c f' => Some (plan_of thr sparse_pre x (Some c) f')
  end.
Definition fit_plan := fit_plan_with validate.
Definition fit_plan_orig := fit_plan_with validate_orig.

(* ---- the graph, for an arbitrary graph constructor ---------------------------------------------------- *)
Section Graph.
Context {A B : Type}.
Variable fss : Z -> list (list A) -> B.                   (* fuzzy_simplicial_set(n_neighbors, kNN table) *)
Variables own_exact own_approx own_sparse : Z -> list (list A).   (* UMAP's own neighbour searches *)

Definition take_cols (c : Z) (T : list (list A)) : list (list A) := map (firstn (Z.to_nat c)) T.

Definition tables_of (s : source) (T : list (list A)) : list (list A) :=
  match s with
  | Supplied c => take_cols c T
  | OwnExact kk => own_exact kk
  | OwnApprox kk => own_approx kk
  | OwnSparse kk => own_sparse kk
  end.

Definition graph_of_plan (p : plan) (T : list (list A)) : B := fss (p_k p) (tables_of (p_src p) T).

Definition fit_graph (thr : Z) (sparse_pre : bool) (x : knn_input) (T : list (list A)) : option B :=
  match fit_plan thr sparse_pre x with
  | None => None
  | Some p => Some (graph_of_plan p T)
  end.
End Graph.

Definition valid (x : knn_input) : Prop :=
  provided x = true /\ unique x = false /\ idx_array x = true /\ dist_array x = true /\ same_shape x = true.

Definition absent (x : knn_input) : knn_input :=
  mkIn false (unique x) (idx_array x) (dist_array x) (same_shape x) (has_index x) (cols x) (rows x) (n x) (k x) (force x).
Definition with_cols (x : knn_input) (c : Z) : knn_input :=
  mkIn (provided x) (unique x) (idx_array x) (dist_array x) (same_shape x) (has_index x) c (rows x) (n x) (k x) (force x).
Definition with_force (x : knn_input) (f : bool) : knn_input :=
  mkIn (provided x) (unique x) (idx_array x) (dist_array x) (same_shape x) (has_index x) (cols x) (rows x) (n x) (k x) f.

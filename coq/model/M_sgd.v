(* C07: the layout optimiser (umap/layouts.py:9-28 clip, 42-60 rdist, 63-186 single-epoch kernel,
   238-443 epoch loop; umap/utils.py:40-63 tau_rand_int; umap_.py:906-925 make_epochs_per_sample,
   1086-1093 weak-edge pruning).  Executable definitions only. *)
From Coq Require Import List ZArith Bool.
From UV Require Import Num.
Import ListNotations NumNotations.

(* ---- Tausworthe generator on int64 state words (exact integer model) -------------------------- *)
Definition wrap32 (z : Z) : Z := ((z + 2147483648) mod 4294967296 - 2147483648)%Z.
Definition wrap64 (z : Z) : Z := ((z + 9223372036854775808) mod 18446744073709551616 - 9223372036854775808)%Z.
Definition m32 : Z := 4294967295%Z.

Definition tau_step (s mask : Z) (sh1 sh2 sh3 : Z) : Z :=
  Z.lxor (Z.land (Z.shiftl (Z.land s mask) sh1) m32)
         (Z.shiftr (Z.lxor (Z.land (Z.shiftl s sh2) m32) s) sh3).

Definition rng3 := (Z * Z * Z)%type.
Definition tau_rand_int (st : rng3) : rng3 * Z :=
  let '(s0, s1, s2) := st in
  let s0' := tau_step s0 4294967294 12 13 19 in
  let s1' := tau_step s1 4294967288 4 2 25 in
  let s2' := tau_step s2 4294967280 17 3 11 in
  ((s0', s1', s2'), wrap32 (Z.lxor (Z.lxor s0' s1') s2')).

(* layouts.py:367-369: per-vertex state = seed words + IEEE bit pattern (as int64) of the first coordinate *)
Definition rng_state_of (seed : rng3) (bits : Z) : rng3 :=
  let '(a, b, c) := seed in
  let sb := wrap64 bits in
  (wrap64 (a + sb), wrap64 (b + sb), wrap64 (c + sb)).

Fixpoint upd {A} (l : list A) (i : nat) (v : A) : list A :=
  match l, i with
  | [], _ => []
  | _ :: r, O => v :: r
  | x :: r, S i' => x :: upd r i' v
  end.

Section SGD.
Context (N : Num).
Local Open Scope num_scope.
Notation "0" := (zero N) : num_scope.
Notation "1" := (one N) : num_scope.
Definition c2 : N := 1 + 1.
Definition c4 : N := c2 + c2.
Definition c001 : N := 1 / of_Z N 1000.

Definition clip (v : N) : N := if c4 <? v then c4 else if v <? - c4 then - c4 else v.

Fixpoint rdist (x y : list N) : N :=
  match x, y with
  | xi :: x', yi :: y' => (xi - yi) * (xi - yi) + rdist x' y'
  | _, _ => 0
  end.

(* lines 136-140 *)
Definition attr_coeff (a b d2 : N) : N :=
  if 0 <? d2 then ((- c2) * a * b * npow N d2 (b - 1)) / (a * npow N d2 b + 1) else 0.
(* lines 167-171 *)
Definition rep_coeff (a b gamma d2 : N) : N :=
  (c2 * gamma * b) / ((c001 + d2) * (a * npow N d2 b + 1)).

Fixpoint map2 (f : N -> N -> N) (x y : list N) : list N :=
  match x, y with
  | xi :: x', yi :: y' => f xi yi :: map2 f x' y'
  | _, _ => []
  end.

(* the embedding(s): in fit the head and tail embeddings are one array ([eshared]) *)
Record emb := mkEmb { eH : list (list N); eT : list (list N); eshared : bool }.
Definition get_tail (e : emb) (k : nat) : list N :=
  if eshared e then nth k (eH e) [] else nth k (eT e) [].
Definition set_head (e : emb) (j : nat) (row : list N) : emb :=
  mkEmb (upd (eH e) j row) (eT e) (eshared e).
Definition set_tail (e : emb) (k : nat) (row : list N) : emb :=
  if eshared e then set_head e k row else mkEmb (eH e) (upd (eT e) k row) (eshared e).

(* attractive move of edge (j,k): lines 97-152 *)
Definition attract (a b alpha : N) (move_other : bool) (e : emb) (j k : nat) : emb :=
  let cur := nth j (eH e) [] in
  let oth := get_tail e k in
  let gc := attr_coeff a b (rdist cur oth) in
  let g := map2 (fun c o => clip (gc * (c - o))) cur oth in
  let e1 := set_head e j (map2 (fun c gd => c + gd * alpha) cur g) in
  if move_other then set_tail e1 k (map2 (fun o gd => o + (- gd) * alpha) (get_tail e1 k) g) else e1.

(* one negative sample against vertex k: lines 163-182 *)
Definition repel (a b gamma alpha : N) (e : emb) (j k : nat) : emb :=
  let cur := nth j (eH e) [] in
  let oth := get_tail e k in
  let d2 := rdist cur oth in
  if 0 <? d2 then
    let gc := rep_coeff a b gamma d2 in
    set_head e j (map2 (fun c o => c + (if 0 <? gc then clip (gc * (c - o)) else 0) * alpha) cur oth)
  else e.   (* j = k: continue; otherwise coefficient 0: no move either way *)

Fixpoint neg_loop (fuel : nat) (a b gamma alpha : N) (nv : Z) (e : emb) (j : nat) (st : rng3) : emb * rng3 :=
  match fuel with
  | O => (e, st)
  | S f =>
    let '(st', r) := tau_rand_int st in
    let k := Z.to_nat (r mod nv) in
    neg_loop f a b gamma alpha nv (repel a b gamma alpha e j k) j st'
  end.

(* per-edge constants and clocks *)
Record edge := mkEdge { e_head : nat; e_tail : nat; e_eps : N; e_epns : N }.
Record sgd_state := mkSt {
  s_emb : emb;
  s_next : list N;        (* epoch_of_next_sample *)
  s_nneg : list N;        (* epoch_of_next_negative_sample *)
  s_rng : list rng3       (* per head vertex *)
}.

(* lines 93-186 for edge number i *)
Definition edge_step (a b gamma alpha : N) (move_other : bool) (nv : Z) (n : N)
                     (s : sgd_state) (i : nat) (ed : edge) : sgd_state :=
  let nxt := nth i (s_next s) 0 in
  if nxt <=? n then
    let j := e_head ed in
    let e1 := attract a b alpha move_other (s_emb s) j (e_tail ed) in
    let nng := nth i (s_nneg s) 0 in
    let cnt := ntrunc N ((n - nng) / e_epns ed) in
    let '(e2, st') := neg_loop (Z.to_nat cnt) a b gamma alpha nv e1 j (nth j (s_rng s) (0, 0, 0)%Z) in
    mkSt e2 (upd (s_next s) i (nxt + e_eps ed))
            (upd (s_nneg s) i (nng + of_Z N cnt * e_epns ed))
            (upd (s_rng s) j st')
  else s.

Fixpoint edges_from (a b gamma alpha : N) (move_other : bool) (nv : Z) (n : N)
                    (i : nat) (es : list edge) (s : sgd_state) : sgd_state :=
  match es with
  | [] => s
  | ed :: r => edges_from a b gamma alpha move_other nv n (S i) r (edge_step a b gamma alpha move_other nv n s i ed)
  end.

Definition epoch (a b gamma alpha : N) (move_other : bool) (nv : Z) (n : N) (es : list edge) (s : sgd_state) :=
  edges_from a b gamma alpha move_other nv n O es s.

(* line 431: the learning rate used in epoch n (n = 0, 1, ...) *)
Definition alpha_of (alpha0 : N) (nepochs : Z) (n : Z) : N :=
  if (n =? 0)%Z then alpha0 else alpha0 * (1 - of_Z N (n - 1) / of_Z N nepochs).

Fixpoint run_from (a b gamma alpha0 : N) (move_other : bool) (nv : Z) (nepochs : Z) (es : list edge)
                  (fuel : nat) (n : Z) (s : sgd_state) : sgd_state :=
  match fuel with
  | O => s
  | S f => run_from a b gamma alpha0 move_other nv nepochs es f (n + 1)%Z
             (epoch a b gamma (alpha_of alpha0 nepochs n) move_other nv (of_Z N n) es s)
  end.

Definition run (a b gamma alpha0 : N) (move_other : bool) (nv : Z) (nepochs : Z) (es : list edge) (s : sgd_state) :=
  run_from a b gamma alpha0 move_other nv nepochs es (Z.to_nat nepochs) 0%Z s.

(* umap_.py:906-925 in exact arithmetic: epochs_per_sample = n_epochs / (n_epochs * (w / wmax)), -1 if that is not positive *)
Definition epochs_per_sample (nepochs wmax w : N) : N :=
  let ns := nepochs * (w / wmax) in
  if 0 <? ns then nepochs / ns else neg N 1.

(* umap_.py:1088-1091: which weights survive the pruning *)
Definition prune_threshold (default_epochs nepochs_max wmax : N) : N :=
  if of_Z N 10 <? nepochs_max then wmax / nepochs_max else wmax / default_epochs.
Definition keep_edge (thr w : N) : bool := negb (w <? thr).

(* the visit clock of a single edge in isolation: number of visits during epochs 0..n-1 *)
Fixpoint visits (p : N) (fuel : nat) (n : Z) (next : N) : nat :=
  match fuel with
  | O => O
  | S f => if next <=? of_Z N n then S (visits p f (n + 1)%Z (next + p)) else visits p f (n + 1)%Z next
  end.

End SGD.

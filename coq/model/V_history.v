(* Verdict functions for the C10 correspondence: the observed trace of a call history is compared,
   inside Coq, with what [step] says (all quantities are integers / booleans: exact comparison). *)
From Coq Require Import List Arith Bool ZArith.
From UV Require Import M_history.
Import ListNotations.

(* one observed call: error class (0 none, 1 ValueError, 2 anything else), rows, columns of the result
   (for update: shape of the new embedding_), "the result is the stored embedding_/graph_" flag,
   identity class of the output bytes (equal sha256 <-> equal number) *)
Record obs := mkObs { b_err : nat; b_rows : nat; b_cols : nat; b_stored : bool; b_hash : nat }.

Definition err_code (e : err) : nat :=
  match e with NoErr => 0 | ErrValue => 1 | ErrOther => 2 | ErrInvalidOp => 3 end.

Definition otag_eqb (a b : otag) : bool :=
  match a, b with
  | OEmb x, OEmb y => Nat.eqb x y
  | OComp v d r n, OComp v' d' r' n' => Nat.eqb v v' && dtag_eqb d d' && Nat.eqb r r' && Nat.eqb n n'
  | OInv v r n, OInv v' r' n' => Nat.eqb v v' && Nat.eqb r r' && Nat.eqb n n'
  | _, _ => false
  end.

(* outputs of transform calls whose identity the model determines *)
Definition tracked (o : op) (res : out) : bool :=
  is_transform o && match o_err res with NoErr => true | _ => false end.

(* first field in which observation and model differ: 1 error class, 2 rows, 3 columns, 4 stored-flag *)
Definition cmp_one (res : out) (b : obs) : nat :=
  if negb (Nat.eqb (err_code (o_err res)) (b_err b)) then 1
  else if negb (Nat.eqb (o_rows res) (b_rows b)) then 2
  else if negb (Nat.eqb (o_cols res) (b_cols b)) then 3
  else if negb (Bool.eqb (o_short res) (b_stored b)) then 4
  else 0.

(* an earlier tracked output with the same model identity but different observed bytes? *)
Definition clash (seen : list (otag * nat)) (t : otag) (h : nat) : bool :=
  existsb (fun e => otag_eqb (fst e) t && negb (Nat.eqb (snd e) h)) seen.

Fixpoint walk (s : state) (tr : list (op * obs)) (seen : list (otag * nat)) (pos : Z) : Z :=
  match tr with
  | [] => (-1)%Z
  | (o, b) :: r =>
      let '(s', res) := step s o in
      let c := cmp_one res b in
      if negb (Nat.eqb c 0) then (pos * 10 + Z.of_nat c)%Z
      else if tracked o res && clash seen (o_tag res) (b_hash b) then (pos * 10 + 5)%Z
      else walk s' r (if tracked o res then (o_tag res, b_hash b) :: seen else seen) (pos + 1)%Z
  end.

(* (n_train, n_features, n_components, graph mode?, seeded?, approximate?, code flags, observed history) *)
Definition verdict_C10 (c : nat * nat * nat * bool * bool * bool * code * list (op * obs)) : Z :=
  let '(n, f, k, g, sd, ap, cd, tr) := c in
  walk (fresh n f k (if g then GraphMode else Embedding) sd ap cd) tr [] 0%Z.

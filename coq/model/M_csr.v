(* C18, CSR level: what the two numba kernels general_sset_union / general_sset_intersection (umap/sparse.py:145-231)
   compute on the CSR arrays (indptr, indices, data) of their operands and the COO skeleton (result_row, result_col,
   result_val) of the result.  Executable definitions only.  The entry-list model of the same kernels is
   M_combine.v ([union_val], [inter_val], [left_fill], ...); coq/link/L_sset.v proves that the Gallina text regenerated
   from the current source equals the definitions below, coq/link/K_sset.v relates them to M_combine.

   * [seg l lo hi]         = l[lo:hi]
   * [csr_row ...  i]      = the stored (column, value) pairs of row i, in storage order
   * [csr_lookup ... i j]  = the value at the LAST position k in [indptr[i], indptr[i+1]) with indices[k] = j
                             (the source's inner loops scan the whole row and later matches overwrite earlier ones);
                             None when the row does not store column j
   * [csr_fill data]       = max(data.min() / 2.0, 1.0e-8)            (sparse.py:160, 212, 213), literals as the source writes them
   * [csr_fill_r data]     = min(max(data.min() / 2.0, 1.0e-8), 1e-4)  (sparse.py:166-168)
   * [csr_fill_rc data]    = min(max((1.0 - data).min() / 2.0, 1.0e-8), 1e-4)   (sparse.py:162-164)
   * [union_entry]         = M_combine.union_val on the two looked-up values
   * [inter_entry rc w lf rf old a b]: sparse.py:174-195 for one skeleton entry; [old] is the content of result_val[idx]
                             before the call: the kernel only WRITES when left_val > left_min or right_val > right_min,
                             otherwise the entry keeps what the caller put there.  pow is [npow] (M_combine.inter_val
                             writes [pw], which short-cuts the exponent 1). *)
From Coq Require Import List ZArith Bool.
From UV Require Import Num PyPrim M_supervised M_combine.
Import ListNotations.

Definition seg {A : Type} (l : list A) (lo hi : Z) : list A :=
  firstn (Z.to_nat (hi - lo)) (skipn (Z.to_nat lo) l).

Section Csr.
Context (N : Num).

Definition csr_row (indptr indices : list Z) (data : list N) (i : Z) : list (Z * N) :=
  let lo := inth indptr i in let hi := inth indptr (i + 1) in
  List.combine (seg indices lo hi) (seg data lo hi).

(* last stored pair of the row whose column is j *)
Definition row_lookup (j : Z) (row : list (Z * N)) : option N :=
  option_map snd (find (fun cv => Z.eqb (fst cv) j) (rev row)).

Definition csr_lookup (indptr indices : list Z) (data : list N) (i j : Z) : option N :=
  row_lookup j (csr_row indptr indices data i).

Definition csr_fill (data : list N) : N :=
  PyPrim.nmax N (div N (vmin_py N data) (nlit N 2 0)) (nlit N 1 (-8)).
Definition csr_fill_r (data : list N) : N :=
  PyPrim.nmin N (PyPrim.nmax N (div N (vmin_py N data) (nlit N 2 0)) (nlit N 1 (-8))) (nlit N 1 (-4)).
Definition csr_fill_rc (data : list N) : N :=
  PyPrim.nmin N (PyPrim.nmax N (div N (vmin_py N (vmaps_l N (sub N) (one N) data)) (nlit N 2 0)) (nlit N 1 (-8))) (nlit N 1 (-4)).

Definition union_entry (lf rf : N) (a b : option N) : N := union_val N lf rf a b.

Definition inter_entry (rc : bool) (w lf rf old : N) (a b : option N) : N :=
  let l := lookup_or_min N lf a in
  let r := match b with Some v => if rc then sub N (one N) v else v | None => rf end in
  if orb (ltb N lf l) (ltb N rf r) then
    (if ltb N w (nlit N 5 (-1)) then mul N l (npow N r (div N w (sub N (one N) w)))
     else mul N (npow N l (div N (sub N (one N) w) w)) r)
  else old.

(* the rows the skeleton refers to are described by a well-formed indptr: row i exists, its bounds are ordered and inside
   the index / data arrays (which have equal lengths) *)
Definition csr_ok (indptr indices : list Z) (data : list N) (i : Z) : Prop :=
  (0 <= i)%Z /\ (i + 1 < zlen indptr)%Z /\
  (0 <= inth indptr i)%Z /\ (inth indptr i <= inth indptr (i + 1))%Z /\ (inth indptr (i + 1) <= zlen indices)%Z /\
  length indices = length data.

(* the whole kernels: the new contents of result_val *)
Definition csr_union (ip1 ix1 : list Z) (d1 : list N) (ip2 ix2 : list Z) (d2 : list N) (row col : list Z) : list N :=
  map (fun ij => union_entry (csr_fill d1) (csr_fill d2) (csr_lookup ip1 ix1 d1 (fst ij) (snd ij)) (csr_lookup ip2 ix2 d2 (fst ij) (snd ij)))
      (List.combine row col).

Definition csr_intersection (ip1 ix1 : list Z) (d1 : list N) (ip2 ix2 : list Z) (d2 : list N) (row col : list Z) (val : list N)
                            (rc : bool) (w : N) : list N :=
  map (fun ijv => inter_entry rc w (csr_fill d1) (if rc then csr_fill_rc d2 else csr_fill_r d2) (snd ijv)
                    (csr_lookup ip1 ix1 d1 (fst (fst ijv)) (snd (fst ijv))) (csr_lookup ip2 ix2 d2 (fst (fst ijv)) (snd (fst ijv))))
      (List.combine (List.combine row col) val).

End Csr.

(* Verdict functions (binary64 instance) for the C04 correspondence. *)
From Coq Require Import List ZArith Bool PrimFloat.
From UV Require Import Num FloatFns FNum M_smooth M_union M_knn M_disconnect.
Import ListNotations.
Open Scope float_scope.

Definition code (kind : Z) (i j : nat) : Z := (kind * 1000000 + Z.of_nat i * 1000 + Z.of_nat j)%Z.

Fixpoint first_bad {A} (f : A -> Z) (l : list A) : Z :=
  match l with
  | [] => (-1)%Z
  | x :: r => let v := f x in if (v =? -1)%Z then first_bad f r else v
  end.

Definition allpairs (n : nat) : list (nat * nat) :=
  flat_map (fun i => map (fun j => (i, j)) (seq 0 n)) (seq 0 n).

Fixpoint eq_mask (kind : Z) (i : nat) (a b : list bool) : Z :=
  match a, b with
  | [], [] => (-1)%Z
  | x :: a', y :: b' => if Bool.eqb x y then eq_mask kind (S i) a' b' else code kind i 0
  | _, _ => code kind i 999
  end.

(* one fit as the implementation saw it *)
Record fit_obs := mkFit {
  o_mode : Z;                 (* 0: dense path (matrix cut) ; 1: sparse precomputed, all off-diagonal entries stored ;
                                 2: predicate only (ties / approximate neighbours / partially stored matrices) *)
  o_cfg : cfg FNum;
  o_t : float;                (* the disconnection distance in force *)
  o_D : list (list float);    (* the metric's pairwise distances (exact for precomputed input) *)
  o_G : coo FNum;             (* graph_ *)
  o_nan : list bool;          (* embedding_ row entirely NaN *)
  o_anynan : list bool;       (* embedding_ row contains a NaN *)
  o_dv : list bool            (* disconnected_vertices(model) *)
}.

Definition dist_at (D : list (list float)) (i j : nat) : option float := nth_error (nth i D []) j.
Definition below (t : float) (D : list (list float)) (i j : nat) : bool :=
  match dist_at D i j with
  | Some d => match cut1 FNum t d with Some _ => true | None => false end
  | None => false
  end.

(* kind 1: a stored edge joins two samples at or beyond t *)
Definition check_pred (t : float) (D : list (list float)) (G : coo FNum) : Z :=
  first_bad (fun e => let '(i, j, v) := e in
               if (v =? 0) || below t D i j || below t D j i then (-1)%Z else code 1 i j) G.

(* kinds 2,3,4: NaN mask / partial NaN / disconnected_vertices differ from "row of graph_ sums to zero" *)
Definition check_masks (n : nat) (o : fit_obs) : Z :=
  let iso := isolated_mask FNum (lookup FNum (o_G o)) n in
  let a := eq_mask 2 0 iso (o_nan o) in
  if negb (a =? -1)%Z then a else
  let b := eq_mask 3 0 iso (o_anynan o) in
  if negb (b =? -1)%Z then b else eq_mask 4 0 iso (o_dv o).

(* kinds 5,6,7: support / values of graph_ differ from the model graph; kind 8: isolated set differs *)
Definition check_full (tol kscale vtol : float) (n : nat) (o : fit_obs) : Z :=
  let c := o_cfg o in
  let tb := if (o_mode o =? 0)%Z then tables_cut FNum (o_t o) (c_k FNum c) (o_D o)
            else tables_cut_knn FNum (o_t o) (sparse_rows FNum (c_k FNum c) 0 (o_D o)) in
  let A := coo_with FNum tol c tb (sigmas_of FNum tol kscale c tb) in
  let gm := graph FNum (c_r FNum c) A in
  let r := first_bad (fun p => let '(i, j) := p in
                        let m := gm i j in let g := lookup FNum (o_G o) i j in
                        if (m =? 0) && negb (g =? 0) then code 5 i j else
                        if (g =? 0) && (1e-30 <? m) then code 6 i j else
                        if negb (f_close 0 vtol m g) then code 7 i j else (-1)%Z) (allpairs n) in
  if negb (r =? -1)%Z then r else
  eq_mask 8 0 (isolated_mask FNum gm n) (o_nan o).

Definition verdict_C04 (tol kscale vtol : float) (o : fit_obs) : Z :=
  let n := length (o_D o) in
  let p := check_pred (o_t o) (o_D o) (o_G o) in
  if negb (p =? -1)%Z then p else
  let m := check_masks n o in
  if negb (m =? -1)%Z then m else
  if (o_mode o =? 2)%Z then (-1)%Z else check_full tol kscale vtol n o.

(* ---- transform --------------------------------------------------------------------------------- *)
Record tr_obs := mkTr {
  tr_t : float;
  tr_niter : nat; tr_target : float; tr_index : nat; tr_interp : float;
  tr_train_nan : list bool;                 (* NaN mask of the reference embedding *)
  tr_rows : list (list (float * Z));        (* per new point: its k nearest (distance, training index), ascending *)
  tr_out : list Z                           (* per new point: 0 row finite, 1 row all NaN, 2 mixed; 9 = not compared *)
}.

Definition tr_emb (mask : list bool) (c : Z) : option (list float) :=
  if nth (Z.to_nat c) mask false then None else Some [0; 0].

Definition verdict_C04_tr (tol kscale : float) (o : tr_obs) : Z :=
  let mean_all := mean FNum (concat (map (map fst) (tr_rows o))) in
  let fix go (i : nat) (rows : list (list (float * Z))) (outs : list Z) : Z :=
    match rows, outs with
    | [], [] => (-1)%Z
    | row :: rows', out :: outs' =>
        let g := new_row FNum tol kscale (tr_niter o) (tr_target o) mean_all (tr_index o) (tr_interp o) (tr_t o) row in
        let isnan := match init_row FNum 2 (tr_emb (tr_train_nan o)) g with None => true | Some _ => false end in
        if (out =? 9)%Z then go (S i) rows' outs' else
        if (out =? 2)%Z then code 11 i 0 else
        if Bool.eqb isnan (out =? 1)%Z then go (S i) rows' outs' else code 10 i 0
    | _, _ => code 12 i 0
    end in
  go O (tr_rows o) (tr_out o).

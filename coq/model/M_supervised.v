(* C16: categorical supervision of the fuzzy graph.
     fast_intersection                          umap_.py:624-664
     reset_local_connectivity (normalize + s + sT - s.sT)   umap_.py:753-781
     discrete_metric_simplicial_set_intersection           umap_.py:784-859
     call site in fit (far_dist from target_weight)          umap_.py:2711-2718
   Executable definitions only.  A sparse matrix is the list of its stored entries (row, col, value) in
   storage order; labels are a function sample -> label (Z; -1 = unlabelled).  [eliminate_zeros] only
   drops stored zeros and is invisible here: the final graph is a function nat -> nat -> N (absent = 0);
   that the implementation stores no zero is checked by the verdict function and by the oracle. *)
From Coq Require Import List ZArith Bool.
From UV Require Import Num.
Import ListNotations NumNotations.

Section Supervised.
Context (N : Num).
Local Open Scope num_scope.
Notation "0" := (zero N) : num_scope.
Notation "1" := (one N) : num_scope.

Definition entry : Type := (nat * nat * N)%type.
Definition smat : Type := list entry.
Definition erow (e : entry) : nat := fst (fst e).
Definition ecol (e : entry) : nat := snd (fst e).
Definition evl  (e : entry) : N := snd e.

(* the stored entry at (i,j): first match (a canonical matrix stores each position at most once) *)
Definition at_key (i j : nat) (e : entry) : bool := Nat.eqb (erow e) i && Nat.eqb (ecol e) j.
Definition entry_at (s : smat) (i j : nat) : option N := option_map evl (find (at_key i j) s).
Definition get (s : smat) (i j : nat) : N := match entry_at s i j with Some v => v | None => 0 end.

(* ---- fast_intersection: lines 656-662 ------------------------------------------------------- *)
Definition unknown (l : Z) : bool := (l =? -1)%Z.

(* [ffar], [funk] are the two factors exp(-far_dist), exp(-unknown_dist) *)
Definition attenuate_f (ffar funk : N) (lab : nat -> Z) (e : entry) : entry :=
  let i := erow e in let j := ecol e in
  if unknown (lab i) || unknown (lab j) then (i, j, evl e * funk)
  else if negb (lab i =? lab j)%Z then (i, j, evl e * ffar)
  else (i, j, evl e).

Definition attenuate (far unk : N) (lab : nat -> Z) (e : entry) : entry :=
  attenuate_f (nexp N (- far)) (nexp N (- unk)) lab e.

(* fit, lines 2712-2715: far_dist = 2.5 * (1.0 / (1.0 - target_weight)) below 1, 1.0e12 at 1 *)
Definition c25 : N := of_Z N 5 / of_Z N 2.
Definition cbig : N := of_Z N 1000000000000.
Definition far_of (w : N) : N := if w <? 1 then c25 * (1 / (1 - w)) else cbig.
Definition unknown_dist : N := 1.      (* default of discrete_metric_simplicial_set_intersection, not overridden by fit *)

(* ---- reset_local_connectivity: sklearn normalize(norm="max") then s + sT - s.sT ----------- *)
Definition nmax (a b : N) : N := if a <=? b then b else a.
Definition row_vals (s : smat) (i : nat) : list N :=
  map evl (filter (fun e => Nat.eqb (erow e) i) s).
(* row maximum, implicit zeros included (all stored values are non-negative here, so sklearn's
   max(|min|, max) is this maximum) *)
Definition row_max (s : smat) (i : nat) : N := fold_left nmax (row_vals s i) 0.
Definition norm_val (m v : N) : N := if m =? 0 then v else v / m.    (* rows with norm 0 are left alone *)
Definition rowmax_normalise (s : smat) : smat :=
  map (fun e => (erow e, ecol e, norm_val (row_max s (erow e)) (evl e))) s.

Definition resym (s : smat) (i j : nat) : N :=
  let a := get s i j in let b := get s j i in a + b - a * b.

(* the same function with the rows of s indexed once (row i of a CSR matrix, then the search for column j);
   [tabulate n f] is [f] with the values at 0..n-1 computed once.  resym_tab n s = resym s for every n and
   every carrier (T_supervised.resym_tab_eq); n is only an evaluation hint. *)
Definition row_of (A : smat) (i : nat) : list (nat * N) :=
  map (fun e => (ecol e, evl e)) (filter (fun e => Nat.eqb (erow e) i) A).
Definition find_col (r : list (nat * N)) (j : nat) : option N :=
  option_map snd (find (fun p => Nat.eqb (fst p) j) r).
Definition stored (o : option N) : N := match o with Some v => v | None => 0 end.
Definition tabulate {X : Type} (n : nat) (f : nat -> X) : nat -> X :=
  let tbl := map f (seq 0 n) in
  fun i => match nth_error tbl i with Some x => x | None => f i end.
Definition entry_tab (n : nat) (s : smat) : nat -> nat -> option N :=
  let rows := tabulate n (row_of s) in fun i j => find_col (rows i) j.
Definition resym_tab (n : nat) (s : smat) : nat -> nat -> N :=
  let at_ := entry_tab n s in
  fun i j => let a := stored (at_ i j) in let b := stored (at_ j i) in a + b - a * b.

(* ---- discrete_metric_simplicial_set_intersection, categorical branch ------------------------ *)
Definition sup_norm_f (ffar funk : N) (g : smat) (lab : nat -> Z) : smat :=
  rowmax_normalise (map (attenuate_f ffar funk lab) g).
Definition supervised_f (ffar funk : N) (g : smat) (lab : nat -> Z) : nat -> nat -> N :=
  resym (sup_norm_f ffar funk g lab).

Definition sup_norm (g : smat) (lab : nat -> Z) (w : N) : smat :=
  rowmax_normalise (map (attenuate (far_of w) unknown_dist lab) g).
Definition supervised (g : smat) (lab : nat -> Z) (w : N) : nat -> nat -> N :=
  resym (sup_norm g lab w).

(* labels given as a list (sample i -> nth i); used by the verdict functions only, where every index is in range *)
Definition lab_of_list (l : list Z) (i : nat) : Z := nth i l (-1)%Z.

End Supervised.

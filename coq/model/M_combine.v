(* C18: combining two fitted models, A + B, A * B, A - B.
     general_sset_intersection / general_sset_union      sparse.py:145-231
     reprocess_row, reset_local_metrics                  umap_.py:710-750
     reset_local_connectivity                            umap_.py:753-781   (rowmax_normalise / resym: M_supervised)
     general_simplicial_set_intersection / _union        umap_.py:862-907
     __mul__ / __add__ / __sub__                         umap_.py:2129-2337
   Executable definitions only.  Sparse matrices are lists of stored entries (M_supervised.smat); the
   result matrix of (A + B).tocoo() / A.tocoo() is produced row-major over the n x n positions, as SciPy does.
   [st] is the storage rounding of the float32 arrays the values are written to (identity over R); it is
   applied where the implementation writes an array.  [tol] = SMOOTH_K_TOLERANCE, [kk], [n_iters] the
   defaults of reprocess_row. *)
From Coq Require Import List ZArith Bool.
From UV Require Import Num M_supervised.
Import ListNotations NumNotations.

Section Combine.
Context (N : Num).
Local Open Scope num_scope.
Notation "0" := (zero N) : num_scope.
Notation "1" := (one N) : num_scope.

Variable st : N -> N.
Variable tol : N.
Variable kk : Z.
Variable n_iters : nat.

Definition two : N := 1 + 1.
Definition half : N := 1 / two.
Definition c1e8 : N := 1 / of_Z N 100000000.
Definition c1e4 : N := 1 / of_Z N 10000.
Definition nmin (a b : N) : N := if a <=? b then a else b.

Definition store (s : smat N) : smat N := map (fun e => (erow N e, ecol N e, st (evl N e))) s.

(* data.min(); on an empty array numba raises ValueError (a fitted model's graph is never empty: fit itself
   fails on an all-isolated graph), so theorems carry the hypothesis A <> [] *)
Definition list_min (l : list N) : N := match l with [] => 0 | x :: r => fold_left nmin r x end.
Definition data_min (A : smat N) : N := list_min (map (evl N) A).

(* sparse.py:160-168, 206-207 *)
Definition left_fill (A : smat N) : N := nmax N (data_min A / two) c1e8.
Definition right_fill (B : smat N) : N := nmin (nmax N (data_min B / two) c1e8) c1e4.
Definition right_fill_compl (B : smat N) : N :=
  nmin (nmax N (list_min (map (fun e => 1 - evl N e) B) / two) c1e8) c1e4.

Definition lookup_or_min (fill : N) (o : option N) : N := match o with Some v => v | None => fill end.
Definition is_some (o : option N) : bool := match o with Some _ => true | None => false end.

(* sparse.py:209-224: a + b - a*b on the filled values *)
Definition union_val (lf rf : N) (a b : option N) : N :=
  let l := lookup_or_min lf a in let r := lookup_or_min rf b in l + r - l * r.

(* libm's pow(x, 1.0) is exactly x *)
Definition pw (x p : N) : N := if p =? 1 then x else npow N x p.

(* sparse.py:170-199; the entry keeps its initial value (A + B, or A for the complement) when neither
   operand exceeds its fill *)
Definition inter_val (rc : bool) (w lf rf : N) (a b : option N) : N :=
  let l := lookup_or_min lf a in
  let r := match b with Some v => if rc then 1 - v else v | None => rf end in
  if (lf <? l) || (rf <? r) then
    (if w <? half then l * pw r (w / (1 - w)) else pw l ((1 - w) / w) * r)
  else if rc then stored N a else stored N a + stored N b.

Definition either (a b : option N) : bool := is_some a || is_some b.
Definition left_only (a b : option N) : bool := is_some a.

Definition kernel_row (n : nat) (present : option N -> option N -> bool) (val : option N -> option N -> N)
                      (A B : smat N) (i : nat) : smat N :=
  let ra := row_of N A i in let rb := row_of N B i in
  flat_map (fun j => let a := find_col N ra j in let b := find_col N rb j in
                     if present a b then [(i, j, val a b)] else []) (seq 0 n).
Definition kernel (n : nat) (present : option N -> option N -> bool) (val : option N -> option N -> N)
                  (A B : smat N) : smat N :=
  flat_map (kernel_row n present val A B) (seq 0 n).

Definition sset_union (n : nat) (A B : smat N) : smat N :=
  kernel n either (union_val (left_fill A) (left_fill B)) A B.
Definition sset_intersection (n : nat) (w : N) (A B : smat N) : smat N :=
  kernel n either (inter_val false w (left_fill A) (right_fill B)) A B.
Definition right_complement (n : nat) (w : N) (A B : smat N) : smat N :=
  kernel n left_only (inter_val true w (left_fill A) (right_fill_compl B)) A B.

(* ---- reprocess_row: bisection on the exponent so that the row total is log2(k) ---------------- *)
Definition psum (row : list N) (mid : N) : N := fold_left (fun acc p => acc + npow N p mid) row 0.

Fixpoint bisect_exp (n : nat) (f : N -> N) (target lo : N) (hi : option N) (mid : N) : N :=
  match n with
  | O => mid
  | S n' =>
    let ps := f mid in
    if nabs N (ps - target) <? tol then mid
    else if ps <? target then bisect_exp n' f target lo (Some mid) ((lo + mid) / two)
    else match hi with
         | None => bisect_exp n' f target mid None (mid * two)
         | Some h => bisect_exp n' f target mid hi ((mid + h) / two)
         end
  end.

Definition log2k : N := nln N (of_Z N kk) / nln N two.
Definition row_mid (s : smat N) (i : nat) : N :=
  bisect_exp n_iters (psum (row_vals N s i)) log2k 0 None 1.

Definition reprocess (n : nat) (s : smat N) : smat N :=
  let mid := tabulate n (row_mid s) in
  map (fun e => (erow N e, ecol N e, npow N (evl N e) (mid (erow N e)))) s.

(* ---- reset_local_connectivity(s, reset_local_metric) ------------------------------------------ *)
Definition reset_norm (n : nat) (metric : bool) (s : smat N) : smat N :=
  let s1 := store (rowmax_normalise N s) in
  if metric then store (reprocess n s1) else s1.
Definition reset_lc (n : nat) (metric : bool) (s : smat N) : nat -> nat -> N :=
  resym N (reset_norm n metric s).

(* ---- the operators ------------------------------------------------------------------------------ *)
Inductive cop : Set := Add | Mul | Sub.
Definition combine_kernel (n : nat) (op : cop) (A B : smat N) : smat N :=
  match op with
  | Add => sset_union n A B
  | Mul => sset_intersection n half A B
  | Sub => right_complement n half A B
  end.
Definition metric_of (op : cop) : bool := match op with Sub => false | _ => true end.
Definition combine_norm (n : nat) (op : cop) (A B : smat N) : smat N :=
  reset_norm n (metric_of op) (store (combine_kernel n op A B)).
Definition combine (n : nat) (op : cop) (A B : smat N) : nat -> nat -> N :=
  resym N (combine_norm n op A B).

(* operator pre-checks: a model is None while unfitted (no graph_), else (number of samples, graph) *)
Inductive outcome : Type := NotFitted | SizeMismatch | Combined (g : nat -> nat -> N).
Definition combine_checked (op : cop) (MA MB : option (nat * smat N)) : outcome :=
  match MA, MB with
  | Some (na, A), Some (nb, B) => if Nat.eqb na nb then Combined (combine na op A B) else SizeMismatch
  | _, _ => NotFitted
  end.

End Combine.

(* Verdict functions (binary64 / Z) for the C11 correspondence. *)
From Coq Require Import List ZArith Bool Arith PrimFloat.
From UV Require Import Num FloatFns FNum M_smooth M_union M_update.
Import ListNotations.
Open Scope float_scope.

Fixpoint all2 {A B} (f : A -> B -> bool) (a : list A) (b : list B) : bool :=
  match a, b with
  | [], [] => true
  | x :: a', y :: b' => f x y && all2 f a' b'
  | _, _ => false
  end.

(* ---- init_update ---------------------------------------------------------------------------------- *)
(* (table before the call, n_original_samples, index table, table after the call or None if it raised).
   -1 agree; -2 the implementation raised (the repaired model never does); otherwise row*10 + 1, or
   row*10 + 2 when the row is what the pre-repair code computes (mean / n_components) *)
Definition row_close (rtol atol : float) (a b : list float) : bool := all2 (f_close rtol atol) a b.

Definition legacy_row_matches (rtol atol : float) (tbl : list (list float)) (n_orig : Z) (idx : list Z) (cur out : list float) : bool :=
  match init_row_legacy FNum tbl n_orig idx cur with
  | Some l => row_close rtol atol l out
  | None => false
  end.

Fixpoint first_bad (rtol atol : float) (tbl : list (list float)) (n_orig : nat) (i : nat)
         (model impl cur : list (list float)) (indices : list (list Z)) : Z :=
  match model, impl, cur, indices with
  | [], [], _, _ => (-1)%Z
  | m :: model', o :: impl', c :: cur', ix :: indices' =>
      if row_close rtol atol m o then first_bad rtol atol tbl n_orig (S i) model' impl' cur' indices'
      else if Nat.leb n_orig i && legacy_row_matches rtol atol tbl (Z.of_nat n_orig) ix c o then (Z.of_nat i * 10 + 2)%Z
      else (Z.of_nat i * 10 + 1)%Z
  | _, _, _, _ => (-3)%Z       (* shape mismatch *)
  end.

Definition verdict_init (rtol atol : float)
    (c : list (list float) * nat * list (list Z) * option (list (list float))) : Z :=
  let '(tbl, n_orig, indices, out) := c in
  match out with
  | None => (-2)%Z
  | Some impl => first_bad rtol atol tbl n_orig 0 (init_update FNum tbl n_orig indices) impl tbl indices
  end.

(* ---- the neighbour count after fit / each update / a fresh fit ------------------------------------- *)
(* the decision model instantiated with dummy points and a graph stage that returns its k *)
Definition kfit (nn : nat) (X : list nat) := fit FNum nat (fun _ _ => 0) nat (fun k _ => k) nn None X.
Definition kupdate (c : ucode) (nn : nat) := update FNum nat (fun _ _ => 0) nat (fun k _ => k) c nn None.

Fixpoint ks_after (c : ucode) (nn : nat) (s : fitted nat nat) (batches : list nat) : list nat :=
  match batches with
  | [] => []
  | b :: r => let s' := kupdate c nn s (repeat O b) in f_k _ _ s' :: ks_after c nn s' r
  end.

(* (n_neighbors, re_resolve, n1, batch sizes, observed [_n_neighbors after fit; after each update], observed fresh fit's)
   -1 agree; p = first position of the observed list that differs; 100 = the fresh fit's *)
Definition verdict_k (c : nat * bool * nat * list nat * list nat * nat) : Z :=
  let '(nn, rr, n1, batches, obs, obs_fresh) := c in
  let code := mkUcode rr true in
  let s0 := kfit nn (repeat O n1) in
  let model := f_k _ _ s0 :: ks_after code nn s0 batches in
  let fresh := f_k _ _ (kfit nn (repeat O (n1 + fold_right Nat.add O batches))) in
  let fix go (p : Z) (a b : list nat) : Z :=
    match a, b with
    | [], [] => (-1)%Z
    | x :: a', y :: b' => if Nat.eqb x y then go (p + 1)%Z a' b' else p
    | _, _ => 99%Z
    end in
  let v := go 0%Z model obs in
  if negb (v =? -1)%Z then v else if Nat.eqb fresh obs_fresh then (-1)%Z else 100%Z.

(* ---- the graph -------------------------------------------------------------------------------------- *)
(* points are row numbers of the observed distance table of the stacked data *)
Definition tdist (D : list (list float)) (i j : nat) : float := nth j (nth i D []) nan.

Fixpoint consecutive (start : nat) (sizes : list nat) : list (list nat) :=
  match sizes with
  | [] => []
  | b :: r => seq start b :: consecutive (start + b) r
  end.

(* is the k-th smallest entry of the row tied with an entry beyond the k-th?  then which of the tied
   neighbours argsort keeps is not determined *)
Definition kth_tie (k : nat) (row : list (option float)) : option float :=
  let s := map fst (sort_row FNum row) in
  match nth_error s (k - 1) with
  | Some d => if Nat.ltb k (length (filter (fun x => x <=? d) s)) then Some d else None
  | None => None
  end.

Definition ambiguous (ties : list (option float)) (table : list (list (option float))) (i j : nat) : bool :=
  match nth i ties None, nth j (nth i table []) None with
  | Some d, Some e => e =? d
  | _, _ => false
  end.

Definition pairs (n : nat) : list (nat * nat) :=
  flat_map (fun i => map (fun j => (i, j)) (seq 0 n)) (seq 0 n).

(* (SMOOTH_K_TOLERANCE, MIN_K_DIST_SCALE, n_iter, set_op_mix_ratio, tolerance,
    n_neighbors, disconnection distance, code flags, n1, batch sizes, distance table of the stacked data, graph_ after the last update)
   -1 agree (entries not decided by a tie), otherwise i*n+j of the first disagreeing entry *)
Definition verdict_graph
    (c : float * float * nat * float * float * nat * option float * ucode * nat * list nat * list (list float) * coo FNum) : Z :=
  let '(tol, kscale, n_iter, r, gtol, nn, disc, code, n1, batches, D, Gobs) := c in
  let n := length D in
  let gs := graph_stage FNum tol kscale n_iter 1 0 r in
  let s := update_chain FNum nat (tdist D) (nat -> nat -> float) gs code nn disc (seq 0 n1) (consecutive n1 batches) in
  let k := f_k _ _ s in
  let table := cut FNum (if cut_on_update code then disc else None) (dmat FNum nat (tdist D) (f_X _ _ s)) in
  let ties := map (kth_tie k) table in
  let g := f_G _ _ s in
  match find (fun p => let '(i, j) := p in
                if ambiguous ties table i j || ambiguous ties table j i then false else
                let m := g i j in
                let o := lookup FNum Gobs i j in
                negb (f_close 0 gtol m o) || ((m =? 0) && negb (o =? 0)))
             (pairs n) with
  | None => (-1)%Z
  | Some (i, j) => Z.of_nat (i * n + j)
  end.

(* Verdict functions (binary64 instance) for the C13 correspondence. *)
From Coq Require Import List ZArith Bool PrimFloat.
From UV Require Import Num FloatFns FNum M_sparse.
Import ListNotations.
Open Scope float_scope.

Definition fvec := svec FNum.

(* metric codes (harness/c13.py CODES): the model value of metric [code] on the pair (a, b) with n features *)
Definition model_value (code : Z) (p : float) (n : nat) (a b : fvec) : option float :=
  match code with
  | 0%Z => Some (sparse_euclidean FNum a b)
  | 1%Z => Some (sparse_manhattan FNum a b)
  | 2%Z => Some (sparse_chebyshev FNum a b)
  | 3%Z => Some (sparse_minkowski FNum p a b)
  | 4%Z => Some (sparse_canberra FNum a b)
  | 5%Z => Some (sparse_bray_curtis FNum a b)
  | 6%Z => Some (sparse_hamming FNum a b n)
  | 7%Z => Some (sparse_jaccard FNum a b)
  | 8%Z => Some (sparse_dice FNum a b)
  | 9%Z => Some (sparse_matching FNum a b n)
  | 10%Z => Some (sparse_kulsinski FNum a b n)
  | 11%Z => Some (sparse_rogers_tanimoto FNum a b n)
  | 12%Z => Some (sparse_russellrao FNum a b n)
  | 13%Z => Some (sparse_sokal_michener FNum a b n)
  | 14%Z => Some (sparse_sokal_sneath FNum a b)
  | 15%Z => Some (sparse_cosine FNum a b)
  | 16%Z => Some (sparse_correlation FNum a b n)
  | 17%Z => Some (sparse_hellinger FNum a b)
  | 18%Z => Some (sparse_correlation_orig FNum a b n)   (* the unrepaired text; used only if the repair is declined *)
  | _ => None
  end.

(* the same metric through the dense textbook definition on the densified vectors (model-internal cross-check) *)
Definition dense_value (code : Z) (p : float) (n : nat) (a b : fvec) : option float :=
  let x := densify FNum n a in let y := densify FNum n b in
  match code with
  | 0%Z => Some (dense_euclidean FNum x y)
  | 1%Z => Some (dense_manhattan FNum x y)
  | 2%Z => Some (dense_chebyshev FNum x y)
  | 3%Z => Some (dense_minkowski FNum p x y)
  | 4%Z => Some (dense_canberra FNum x y)
  | 5%Z => Some (dense_braycurtis FNum x y)
  | 6%Z => Some (dense_hamming FNum x y)
  | 7%Z => Some (dense_jaccard FNum x y)
  | 8%Z => Some (dense_dice FNum x y)
  | 9%Z => Some (dense_matching FNum x y)
  | 10%Z => Some (dense_kulsinski FNum x y)
  | 11%Z => Some (dense_rogerstanimoto FNum x y)
  | 12%Z => Some (dense_russellrao FNum x y)
  | 13%Z => Some (dense_sokalmichener FNum x y)
  | 14%Z => Some (dense_sokalsneath FNum x y)
  | 15%Z => Some (dense_cosine FNum x y)
  | 16%Z => Some (dense_correlation FNum x y)
  | 17%Z => Some (dense_hellinger FNum x y)
  | _ => None
  end.

(* hellinger = sqrt(1 - BC): float32 noise of 1e-7 in BC near BC = 1 is 3e-4 in the distance, so that metric is
   compared through its square (the quantity the rounding acts on) *)
Definition close_for (code : Z) (rtol atol m v : float) : bool :=
  if (code =? 17)%Z then f_close rtol (2 * atol) (m * m) (v * v) else f_close rtol atol m v.

(* one pair with the implementation's values: list of (code, p, impl value).
   -1 = every value agrees; 100 + code = model vs implementation; 200 + code = no model for the code *)
Definition verdict_C13 (rtol atol : float) (c : nat * fvec * fvec * list (Z * float * float)) : Z :=
  let '(n, a, b, obs) := c in
  let fix go (l : list (Z * float * float)) : Z :=
    match l with
    | [] => (-1)%Z
    | (code, p, v) :: l' =>
        match model_value code p n a b with
        | None => (200 + code)%Z
        | Some m => if close_for code rtol atol m v then go l' else (100 + code)%Z
        end
    end in
  go obs.

(* sparse model vs dense model on the same pair (both in binary64): -1 or 300 + code.  The dense hellinger formula
   has no clamp: when rounding makes 1 - r/s slightly negative it is NaN in binary64 while the sparse one returns 0;
   that rounding artefact of the dense formula is not a disagreement of the models
   (the sparse value is then 0 or the square root of a rounding residue) *)
Definition verdict_C13_dense (rtol atol : float) (c : nat * fvec * fvec * list (Z * float * float)) : Z :=
  let '(n, a, b, obs) := c in
  let fix go (l : list (Z * float * float)) : Z :=
    match l with
    | [] => (-1)%Z
    | (code, p, _) :: l' =>
        match model_value code p n a b, dense_value code p n a b with
        | Some m, Some d => if close_for code rtol atol m d || ((code =? 17)%Z && f_isnan d && (m * m <=? 2 * atol)) then go l' else (300 + code)%Z
        | _, _ => go l'            (* no model / no dense twin: reported by verdict_C13 *)
        end
    end in
  go obs.

(* ---- helpers: exact on indices, tolerance on values ------------------------------------------------ *)
Fixpoint vals_close (rtol atol : float) (x y : list float) : bool :=
  match x, y with
  | [], [] => true
  | u :: x', v :: y' => f_close rtol atol u v && vals_close rtol atol x' y'
  | _, _ => false
  end.

(* op: 0 sparse_sum, 1 sparse_diff, 2 sparse_mul.  -1 agree, 1 index arrays differ, 2 values differ, 3 unknown op *)
Definition verdict_helper (rtol atol : float) (c : Z * fvec * fvec * fvec) : Z :=
  let '(op, a, b, out) := c in
  let m := match op with
           | 0%Z => Some (sparse_sum FNum a b)
           | 1%Z => Some (sparse_diff FNum a b)
           | 2%Z => Some (sparse_mul FNum a b)
           | _ => None
           end in
  match m with
  | None => 3%Z
  | Some r => if negb (list_eqb (inds FNum r) (inds FNum out)) then 1%Z
              else if negb (vals_close rtol atol (vals FNum r) (vals FNum out)) then 2%Z else (-1)%Z
  end.

(* op: 0 arr_union, 1 arr_intersect on strictly increasing index arrays.  -1 agree, 1 differ, 3 unknown op *)
Definition verdict_index (c : Z * list nat * list nat * list nat) : Z :=
  let '(op, a, b, out) := c in
  match op with
  | 0%Z => if list_eqb (arr_union a b) out then (-1)%Z else 1%Z
  | 1%Z => if list_eqb (arr_intersect a b) out then (-1)%Z else 1%Z
  | _ => 3%Z
  end.

(* Verdict functions (binary64 instance) for the C14 correspondence, plus the software
   sin / cos / asin the binary64 leg needs (UNVERIFIED, evaluation only; cross-checked per run
   against Python's math module by harness/c14.py, like lib/FloatFns.v). *)
From Coq Require Import List ZArith Bool PrimFloat.
From UV Require Import Num FloatFns FNum M_grads.
Import ListNotations.
Open Scope float_scope.

Definition f_pi : float := 0x1.921fb54442d18p+1.
Definition pio2_hi : float := 0x1.921fb54400000p+0.       (* pi/2 split so that k * pio2_hi is exact for small k *)
Definition pio2_lo : float := 0x1.0b4611a626331p-34.
Definition two_over_pi : float := 0x1.45f306dc9c883p-1.

(* 1/(2k+1)! with alternating signs, Horner in r^2 *)
Definition sin_coeffs : list float :=
  [1; -1/6; 1/120; -1/5040; 1/362880; -1/39916800; 1/6227020800; -1/1307674368000; 1/355687428096000].
Definition cos_coeffs : list float :=
  [1; -1/2; 1/24; -1/720; 1/40320; -1/3628800; 1/479001600; -1/87178291200; 1/20922789888000; -1/6402373705728000].
Definition ksin (r : float) : float := r * horner sin_coeffs (r * r).
Definition kcos (r : float) : float := horner cos_coeffs (r * r).

Definition reduce (x : float) : float * Z :=
  let k := f_floor (x * two_over_pi + 0.5) in
  let kk := f_of_Z k in
  ((x - kk * pio2_hi) - kk * pio2_lo, (k mod 4)%Z).

Definition f_sin (x : float) : float :=
  if f_isnan x || f_isinf x then nan else
  let '(r, q) := reduce x in
  if (q =? 0)%Z then ksin r else if (q =? 1)%Z then kcos r else if (q =? 2)%Z then - ksin r else - kcos r.
Definition f_cos (x : float) : float :=
  if f_isnan x || f_isinf x then nan else
  let '(r, q) := reduce x in
  if (q =? 0)%Z then kcos r else if (q =? 1)%Z then - ksin r else if (q =? 2)%Z then - kcos r else ksin r.

(* asin on [0, 1/2]: sum_n c_n x^(2n+1), c_{n+1}/c_n = (2n+1)^2 / ((2n+2)(2n+3)) *)
Fixpoint asin_series (fuel : nat) (n : float) (term x2 acc : float) : float :=
  match fuel with
  | O => acc
  | S f => let t' := term * x2 * ((2 * n + 1) * (2 * n + 1)) / ((2 * n + 2) * (2 * n + 3)) in
           asin_series f (n + 1) t' x2 (acc + t')
  end.
Definition asin_small (x : float) : float := asin_series 40 0 x (x * x) x.
Definition f_asin (x : float) : float :=
  if f_isnan x then nan else
  let a := abs x in
  if 1 <? a then nan else
  let r := if a <=? 0.5 then asin_small a
           else f_pi / 2 - 2 * asin_small (sqrt ((1 - a) / 2)) in
  if x <? 0 then - r else r.

(* ---- one observed call ---------------------------------------------------------------------- *)
Record gcase := mkG {
  g_fn : nat;                 (* which *_grad function (table in harness/c14.py FUNCS) *)
  g_x : list float;  g_y : list float;
  g_v : list float;           (* sigma (seuclidean) / w (wminkowski) *)
  g_p : float;                (* p (minkowski, wminkowski) / z (symmetric_kl) *)
  g_m : list (list float);    (* vinv (mahalanobis) *)
  g_d : float;  g_g : list float   (* what the implementation returned: distance, gradient (first len(x) entries) *)
}.

Definition run_model (c : gcase) : float * list float :=
  let x := g_x c in let y := g_y c in
  match g_fn c with
  | 0%nat => euclidean_grad FNum x y
  | 1%nat => standardised_euclidean_grad FNum x y (g_v c)
  | 2%nat => manhattan_grad FNum x y
  | 3%nat => chebyshev_grad FNum x y
  | 4%nat => minkowski_grad FNum x y (g_p c)
  | 5%nat => hyperboloid_grad FNum x y
  | 6%nat => weighted_minkowski_grad FNum x y (g_v c) (g_p c)
  | 7%nat => mahalanobis_grad FNum x y (g_m c)
  | 8%nat => canberra_grad FNum x y
  | 9%nat => bray_curtis_grad FNum x y
  | 10%nat => haversine_grad FNum f_sin f_cos f_asin f_pi x y
  | 11%nat => cosine_grad FNum x y
  | 12%nat => hellinger_grad FNum x y
  | 13%nat => symmetric_kl_grad FNum x y (g_p c)
  | 14%nat => correlation_grad FNum x y
  | 15%nat => spherical_gaussian_energy_grad FNum f_pi x y
  | 16%nat => diagonal_gaussian_energy_grad FNum f_pi x y
  | 17%nat => gaussian_energy_grad FNum f_sin f_cos f_asin f_pi x y
  | _ => (nan, [])
  end.

Fixpoint first_bad (rtol atol : float) (i : Z) (a b : list float) : Z :=
  match a, b with
  | [], [] => (-1)%Z
  | u :: a', v :: b' => if f_close rtol atol u v then first_bad rtol atol (i + 1)%Z a' b' else (10 + i)%Z
  | _, _ => 2%Z
  end.

(* -1 agree; 1 distance differs; 2 gradient length differs; 10+i gradient component i differs *)
Definition verdict_C14 (rtol atol : float) (c : gcase) : Z :=
  let '(d, g) := run_model c in
  if negb (f_close rtol atol d (g_d c)) then 1%Z else first_bad rtol atol 0%Z g (g_g c).

(* self-test hooks: values of the software functions on a list of points *)
Definition selftest_trig (xs : list float) : list float * list float := (map f_sin xs, map f_cos xs).
Definition selftest_asin (xs : list float) : list float := map f_asin xs.

(* Verdict functions (binary64 instance) for the C12 correspondence, plus the binary64 instance [FExt] of the
   extra operations (software sin / cos / arcsin: UNVERIFIED code, evaluation leg only, self-tested against
   Python's math module by harness/c12.py on every run). *)
From Coq Require Import List ZArith Bool PrimFloat.
From UV Require Import Num FloatFns FNum M_metrics.
Import ListNotations.
Open Scope float_scope.

(* ---- software trigonometry -------------------------------------------------------------------- *)
Definition f_pi := 0x1.921fb54442d18p+1.
Definition pio2_hi := 0x1.921fb54400000p+0.
Definition pio2_lo := 0x1.0b4611a626331p-34.
Definition two_over_pi := 0x1.45f306dc9c883p-1.

Definition sin_coeffs : list float :=
  [1; -1/6; 1/120; -1/5040; 1/362880; -1/39916800; 1/6227020800; -1/1307674368000; 1/355687428096000].
Definition cos_coeffs : list float :=
  [1; -1/2; 1/24; -1/720; 1/40320; -1/3628800; 1/479001600; -1/87178291200; 1/20922789888000;
   -1/6402373705728000].
Definition sin_poly (r : float) : float := r * horner sin_coeffs (r * r).
Definition cos_poly (r : float) : float := horner cos_coeffs (r * r).

(* x = k * pi/2 + r, |r| <= pi/4 (accurate for |x| up to a few thousand) *)
Definition trig_reduce (x : float) : Z * float :=
  let k := f_floor (x * two_over_pi + 0.5) in
  let kk := f_of_Z k in
  (Z.modulo k 4, (x - kk * pio2_hi) - kk * pio2_lo).

Definition f_sin (x : float) : float :=
  if negb (f_finite x) then nan else
  let '(q, r) := trig_reduce x in
  if (q =? 0)%Z then sin_poly r else if (q =? 1)%Z then cos_poly r
  else if (q =? 2)%Z then - sin_poly r else - cos_poly r.
Definition f_cos (x : float) : float :=
  if negb (f_finite x) then nan else
  let '(q, r) := trig_reduce x in
  if (q =? 0)%Z then cos_poly r else if (q =? 1)%Z then - sin_poly r
  else if (q =? 2)%Z then - cos_poly r else sin_poly r.

Definition atan_coeffs : list float :=
  [1; -1/3; 1/5; -1/7; 1/9; -1/11; 1/13; -1/15; 1/17; -1/19; 1/21; -1/23; 1/25; -1/27; 1/29; -1/31].
Definition atan_small (t : float) : float := t * horner atan_coeffs (t * t).     (* |t| <= 0.2 *)
Definition atan_halve (t : float) : float := t / (1 + sqrt (1 + t * t)).         (* tan(atan t / 2) *)
Definition f_atan1 (t : float) : float := 4 * atan_small (atan_halve (atan_halve t)).   (* |t| <= 1 *)
Definition f_asin (x : float) : float :=
  if f_isnan x then nan else if 1 <? abs x then nan else
  2 * f_atan1 (x / (1 + sqrt (1 - x * x))).

Definition FExt : Ext FNum := mkExt FNum f_sin f_cos f_asin f_pi f_to_Z.

(* ---- evaluation of one registered metric -------------------------------------------------------- *)
Inductive mtag :=
  | M_euclidean | M_manhattan | M_chebyshev | M_minkowski | M_seuclidean | M_wminkowski | M_mahalanobis
  | M_canberra | M_braycurtis | M_cosine | M_correlation | M_hellinger | M_haversine | M_poincare
  | M_symmetric_kl | M_ll_dirichlet
  | M_hamming | M_jaccard | M_matching | M_dice | M_kulsinski | M_rogerstanimoto | M_russellrao
  | M_sokalmichener | M_sokalsneath | M_yule.

(* metric parameters of a case: p, z, weights, variances, inverse covariance *)
Record mparams := mkP { p_p : float; p_z : float; p_w : list float; p_V : list float; p_VI : list (list float) }.

Definition eval_metric (m : mtag) (P : mparams) (x y : list float) : float :=
  match m with
  | M_euclidean => d_euclidean FNum x y
  | M_manhattan => d_manhattan FNum x y
  | M_chebyshev => d_chebyshev FNum x y
  | M_minkowski => d_minkowski FNum (p_p P) x y
  | M_seuclidean => d_seuclidean FNum (p_V P) x y
  | M_wminkowski => d_wminkowski FNum (p_w P) (p_p P) x y
  | M_mahalanobis => d_mahalanobis FNum (p_VI P) x y
  | M_canberra => d_canberra FNum x y
  | M_braycurtis => d_braycurtis FNum x y
  | M_cosine => d_cosine FNum x y
  | M_correlation => d_correlation FNum x y
  | M_hellinger => d_hellinger FNum x y
  | M_haversine => match d_haversine FNum FExt x y with Some v => v | None => nan end
  | M_poincare => d_poincare FNum x y
  | M_symmetric_kl => d_symmetric_kl FNum (p_z P) x y
  | M_ll_dirichlet => d_ll_dirichlet FNum FExt x y
  | M_hamming => d_hamming FNum x y
  | M_jaccard => d_jaccard FNum x y
  | M_matching => d_matching FNum x y
  | M_dice => d_dice FNum x y
  | M_kulsinski => d_kulsinski FNum x y
  | M_rogerstanimoto => d_rogerstanimoto FNum x y
  | M_russellrao => d_russellrao FNum x y
  | M_sokalmichener => d_sokalmichener FNum x y
  | M_sokalsneath => d_sokalsneath FNum x y
  | M_yule => d_yule FNum x y
  end.

(* tolerance class of a metric:
   0 = rel 1e-5 / abs 1e-6 on the value;
   1 = rel 1e-4 / abs 1e-6 (float32 accumulator: mahalanobis' diff vector, poincare's float32 norms);
   2 = the SQUARES are compared, rel 1e-4 / abs 1e-5 (the value is a square root of a difference that cancels:
       hellinger, ll_dirichlet; rounding of the radicand is what "up to float rounding" can mean there);
       3 = as 0, or, close to the antipode (model value > 2.5), the haversines sin^2(d/2) agree to 2e-6 (the
       arcsine is infinitely ill-conditioned at 1 and the kernel takes cos / differences in float32) *)
Definition tol_class (m : mtag) : Z :=
  match m with
  | M_mahalanobis | M_poincare => 1%Z
  | M_hellinger | M_ll_dirichlet => 2%Z
  | M_haversine => 3%Z
  | _ => 0%Z
  end.

Definition hav (d : float) : float := let s := f_sin (d / 2) in s * s.

Definition agree (m : mtag) (model impl : float) : bool :=
  let c := tol_class m in
  if (c =? 0)%Z then f_close 1e-5 1e-6 model impl
  else if (c =? 1)%Z then f_close 1e-4 1e-6 model impl
  else if (c =? 2)%Z then f_close 1e-4 1e-5 (model * model) (impl * impl) && negb (impl <? 0)
  else f_close 1e-5 1e-6 model impl || ((2.5 <? model) && f_close 0 2e-6 (hav model) (hav impl)).

(* a case: parameters, x, y and the implementation's value for each listed metric (aliases appear as extra entries).
   Verdict: position of the first entry whose model value disagrees, or -1. *)
Definition case_C12 : Type := (mparams * list float * list float * list (mtag * float))%type.

Definition verdict_C12 (c : case_C12) : Z :=
  let '(P, x, y, outs) := c in
  let fix go (i : Z) (l : list (mtag * float)) : Z :=
    match l with
    | [] => (-1)%Z
    | (m, v) :: l' => if agree m (eval_metric m P x y) v then go (i + 1)%Z l' else i
    end in
  go 0%Z outs.

(* the model's values themselves (used by the harness to print a disagreement) *)
Definition values_C12 (c : case_C12) : list float :=
  let '(P, x, y, outs) := c in map (fun e => eval_metric (fst e) P x y) outs.

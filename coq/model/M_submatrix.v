(* Model of umap/utils.py `submatrix` (C20): the gather that prunes a (n_samples, n_fit) table to the columns listed, row by
   row, in an index table:  submat[i, j] = dmat[i, indices_col[i, j]].
   Row i of the result is the list of the entries of row i of [dmat] at the columns of row i of [indices_col], in that
   order.  A column index is a Python int: [vnth] reads it with numba's semantics (a negative index wraps once; an index
   outside the row reads outside the array -- outside the meaning, the theorems carry the range hypothesis). *)
From Coq Require Import List ZArith.
From UV Require Import Num PyPrim.
Import ListNotations.

Section Submatrix.
Context (N : Num).

Definition gather_row (row : list N) (cols : list Z) : list N := map (fun c => vnth N row c) cols.

Definition submatrix_model (dmat : list (list N)) (indices_col : list (list Z)) : list (list N) :=
  map (fun p => gather_row (fst p) (snd p)) (combine dmat indices_col).
End Submatrix.

(* C12: the dense metrics registered in umap/distances.py `named_distances` (lines 22-790, registry 1130-1175).
   Executable definitions only; one definition [d_<metric>] per registered function (aliases share it).
   Vectors are lists; a loop `for i in range(x.shape[0])` over x[i], y[i] is [zipw f x y] (both arguments have
   the same length in every call the library makes; theorems carry [length x = length y] where it matters);
   `result += t` from 0.0 is [vsum] (fold_left, the loop's order).  Numbers live in an arbitrary [Num]; the few
   operations [Num] lacks (sin, cos, arcsin, pi, truncation to an integer) come in through an [Ext] record.
   Each definition is the textbook formula with the code's conventions for degenerate (all-zero, constant,
   identical) arguments spelled out; these ARE the specification the implementation is checked against. *)
From Coq Require Import List ZArith Bool.
From UV Require Import Num.
Import ListNotations NumNotations.

(* operations missing from [Num] (used by haversine and ll_dirichlet only) *)
Record Ext (N : Num) : Type := mkExt {
  xsin : N -> N;  xcos : N -> N;  xasin : N -> N;
  xpi : N;
  xtrunc : N -> Z          (* Python int(): truncation toward zero *)
}.

Fixpoint zipw {A B C : Type} (f : A -> B -> C) (x : list A) (y : list B) : list C :=
  match x, y with
  | a :: x', b :: y' => f a b :: zipw f x' y'
  | _, _ => []
  end.

(* the four agreement counts of two vectors read as booleans: (ntt, ntf, nft, nff) *)
Definition counts4 : Type := (Z * Z * Z * Z)%type.
Definition c_total (c : counts4) : Z := let '(ntt, ntf, nft, nff) := c in (ntt + ntf + nft + nff)%Z.
Definition c_swap (c : counts4) : counts4 := let '(ntt, ntf, nft, nff) := c in (ntt, nft, ntf, nff).

Section Metrics.
Context (N : Num).
Local Open Scope num_scope.
Notation "0" := (zero N) : num_scope.
Notation "1" := (one N) : num_scope.

Definition n2 : N := 1 + 1.
Definition nhalf : N := 1 / n2.
Definition nZ (z : Z) : N := of_Z N z.

Definition vsum (l : list N) : N := fold_left (add N) l 0.
(* result = max(result, v), from 0.0 *)
Definition vmax2 (r v : N) : N := if r <? v then v else r.
Definition vmaxl (l : list N) : N := fold_left vmax2 l 0.

Definition sqr (a : N) : N := a * a.
Definition absdiff (a b : N) : N := nabs N (a - b).
Definition sqdiff (a b : N) : N := sqr (a - b).
Definition vdot (x y : list N) : N := vsum (zipw (mul N) x y).
Definition vsq (x : list N) : N := vsum (map sqr x).

(* ---- Minkowski family ------------------------------------------------------------------------ *)
(* euclidean / l2 : sqrt(sum (x_i - y_i)^2) *)
Definition d_euclidean (x y : list N) : N := nsqrt N (vsum (zipw sqdiff x y)).
(* manhattan / taxicab / l1 : sum |x_i - y_i| *)
Definition d_manhattan (x y : list N) : N := vsum (zipw absdiff x y).
(* chebyshev / linfinity / linfty / linf : max |x_i - y_i| *)
Definition d_chebyshev (x y : list N) : N := vmaxl (zipw absdiff x y).
(* minkowski : (sum |x_i - y_i|^p)^(1/p) *)
Definition pdiff (p a b : N) : N := npow N (absdiff a b) p.
Definition d_minkowski (p : N) (x y : list N) : N := npow N (vsum (zipw (pdiff p) x y)) (1 / p).
(* seuclidean / standardised_euclidean : sqrt(sum (x_i - y_i)^2 / V_i) *)
Definition d_seuclidean (V : list N) (x y : list N) : N :=
  nsqrt N (vsum (zipw (fun t v => t / v) (zipw sqdiff x y) V)).
(* wminkowski / weighted_minkowski : (sum w_i |x_i - y_i|^p)^(1/p) *)
Definition d_wminkowski (w : list N) (p : N) (x y : list N) : N :=
  npow N (vsum (zipw (fun wi t => wi * t) w (zipw (pdiff p) x y))) (1 / p).
(* mahalanobis : sqrt((x-y)^T VI (x-y)) *)
Definition quadform (VI : list (list N)) (d : list N) : N :=
  vsum (zipw (fun row di => vdot row d * di) VI d).
Definition d_mahalanobis (VI : list (list N)) (x y : list N) : N :=
  nsqrt N (quadform VI (zipw (sub N) x y)).

(* ---- other real-vector metrics ---------------------------------------------------------------- *)
(* canberra : sum |x_i - y_i| / (|x_i| + |y_i|), terms with a zero denominator skipped *)
Definition canberra_term (a b : N) : N :=
  let den := nabs N a + nabs N b in if 0 <? den then absdiff a b / den else 0.
Definition d_canberra (x y : list N) : N := vsum (zipw canberra_term x y).
(* braycurtis : sum |x_i - y_i| / sum |x_i + y_i| ; 0 when the denominator is 0 *)
Definition d_braycurtis (x y : list N) : N :=
  let num := vsum (zipw absdiff x y) in
  let den := vsum (zipw (fun a b => nabs N (a + b)) x y) in
  if 0 <? den then num / den else 0.
(* cosine : 1 - <x,y> / sqrt(|x|^2 |y|^2) ; 0 if both vectors are zero, 1 if exactly one is *)
Definition cos_core (dot nx ny : N) : N := 1 - dot / nsqrt N (nx * ny).
Definition d_cosine (x y : list N) : N :=
  let dot := vdot x y in let nx := vsq x in let ny := vsq y in
  if (nx =? 0) && (ny =? 0) then 0
  else if (nx =? 0) || (ny =? 0) then 1
  else cos_core dot nx ny.
(* correlation : cosine of the mean-centred vectors ; 0 if both are constant, 1 if the centred dot product is 0 *)
Definition vmean (x : list N) : N := vsum x / nZ (Z.of_nat (length x)).
Definition centre (x : list N) : list N := let mu := vmean x in map (fun a => a - mu) x.
Definition d_correlation (x y : list N) : N :=
  let sx := centre x in let sy := centre y in
  let nx := vsq sx in let ny := vsq sy in let dot := vdot sx sy in
  if (nx =? 0) && (ny =? 0) then 0
  else if dot =? 0 then 1
  else cos_core dot nx ny.
(* hellinger : sqrt(1 - sum sqrt(x_i y_i) / sqrt(sum x * sum y)) ; 0 / 1 conventions as cosine.
   The argument of the outer square root is clamped at 0 (proposed fix C12_hellinger_nan: rounding can make it
   slightly negative for proportional arguments; over the reals the clamp never fires, see T_metrics). *)
Definition clamp0 (a : N) : N := if a <? 0 then 0 else a.
Definition d_hellinger (x y : list N) : N :=
  let r := vsum (zipw (fun a b => nsqrt N (a * b)) x y) in
  let lx := vsum x in let ly := vsum y in
  if (lx =? 0) && (ly =? 0) then 0
  else if (lx =? 0) || (ly =? 0) then 1
  else nsqrt N (clamp0 (1 - r / nsqrt N (lx * ly))).
(* haversine on (latitude, longitude) pairs in radians; the code raises ValueError unless the dimension is 2.
   The arcsine's argument is clamped at 1 (proposed fix C12_haversine_nan: rounding can put it just above 1 for
   antipodal points). *)
Definition clamp1 (a : N) : N := if 1 <? a then 1 else a.
Definition d_haversine (E : Ext N) (x y : list N) : option N :=
  match x, y with
  | [x0; x1], [y0; y1] =>
      let sin_lat := xsin N E (nhalf * (x0 - y0)) in
      let sin_long := xsin N E (nhalf * (x1 - y1)) in
      let r := nsqrt N (sqr sin_lat + xcos N E x0 * xcos N E y0 * sqr sin_long) in
      Some (n2 * xasin N E (clamp1 r))
  | _, _ => None
  end.
(* poincare : arccosh(1 + 2 |u-v|^2 / ((1-|u|^2)(1-|v|^2))) on the open unit ball *)
Definition nacosh (t : N) : N := nln N (t + nsqrt N (t * t - 1)).
Definition d_poincare (u v : list N) : N :=
  let su := vsq u in let sv := vsq v in
  let sd := vsq (zipw (sub N) u v) in
  nacosh (1 + n2 * (sd / ((1 - su) * (1 - sv)))).
(* symmetric_kl : (KL(p||q) + KL(q||p)) / 2 of p = (x+z)/sum(x+z), q = (y+z)/sum(y+z) *)
Definition smooth_normalise (z : N) (x : list N) : list N :=
  let xs := map (fun a => a + z) x in let s := vsum xs in map (fun a => a / s) xs.
Definition d_symmetric_kl (z : N) (x y : list N) : N :=
  let p := smooth_normalise z x in let q := smooth_normalise z y in
  let kl1 := vsum (zipw (fun a b => a * nln N (a / b)) p q) in
  let kl2 := vsum (zipw (fun a b => b * nln N (b / a)) p q) in
  (kl1 + kl2) / n2.

(* ll_dirichlet, as written (lines 664-747): Stirling-type approximations of log Beta *)
Section LLD.
Variable E : Ext N.
Definition c12 : N := nZ 12.  Definition c5 : N := nZ 5.
Definition c09 : N := nZ 9 / nZ 10.   Definition c0125 : N := 1 / nZ 8.
Definition approx_log_gamma (x : N) : N :=
  if x =? 1 then 0
  else x * nln N x - x + nhalf * nln N (n2 * xpi N E / x) + 1 / (x * c12).
Definition log_beta (x y : N) : N :=
  let a := if y <? x then y else x in        (* min(x, y) *)
  let b := if x <? y then y else x in        (* max(x, y) *)
  if b <? c5 then
    fold_left (fun v i => v + (nln N (nZ (Z.of_nat i)) - nln N (b + nZ (Z.of_nat i))))
              (seq 1 (Z.to_nat (xtrunc N E a) - 1)) (- nln N b)
  else approx_log_gamma x + approx_log_gamma y - approx_log_gamma (x + y).
Definition log_single_beta (x : N) : N :=
  nln N n2 * (- (n2 * x) + nhalf) + nhalf * nln N (n2 * xpi N E / x) + c0125 / x.
Definition lld_core (d1 d2 : list N) : N :=
  let s1 := vsum d1 in let s2 := vsum d2 in
  let log_b := vsum (zipw (fun a b => if c09 <? a * b then log_beta a b else 0) d1 d2) in
  let sd1 := vsum (zipw (fun a b => if (c09 <? a * b) || (c09 <? a) then log_single_beta a else 0) d1 d2) in
  let sd2 := vsum (zipw (fun a b => if (c09 <? a * b) || (c09 <? b) then log_single_beta b else 0) d1 d2) in
  1 / s2 * (log_b - log_beta s1 s2 - (sd2 - log_single_beta s2))
  + 1 / s1 * (log_b - log_beta s2 s1 - (sd1 - log_single_beta s1)).
(* with the proposed fix C12_ll_dirichlet_nan: the square root's argument is clamped at 0 *)
Definition d_ll_dirichlet (d1 d2 : list N) : N := nsqrt N (clamp0 (lld_core d1 d2)).
End LLD.

(* ---- binary family ----------------------------------------------------------------------------- *)
Definition truthy (a : N) : bool := negb (a =? 0).
Fixpoint counts (x y : list N) : counts4 :=
  match x, y with
  | a :: x', b :: y' =>
      let '(ntt, ntf, nft, nff) := counts x' y' in
      match truthy a, truthy b with
      | true, true => (ntt + 1, ntf, nft, nff)
      | true, false => (ntt, ntf + 1, nft, nff)
      | false, true => (ntt, ntf, nft + 1, nff)
      | false, false => (ntt, ntf, nft, nff + 1)
      end%Z
  | _, _ => (0, 0, 0, 0)%Z
  end.

(* hamming compares the VALUES (x_i != y_i), not their truth values: #{x_i <> y_i} / n *)
Fixpoint count_neq (x y : list N) : Z :=
  match x, y with
  | a :: x', b :: y' => Z.add (if a =? b then 0%Z else 1%Z) (count_neq x' y')
  | _, _ => 0%Z
  end.
Definition d_hamming (x y : list N) : N := nZ (count_neq x y) / nZ (Z.of_nat (length x)).

(* formulas on the counts; n = ntt + ntf + nft + nff = x.shape[0] *)
Definition b_jaccard (c : counts4) : N :=
  let '(ntt, ntf, nft, nff) := c in
  let nnz := (ntt + ntf + nft)%Z in
  if (nnz =? 0)%Z then 0 else nZ (nnz - ntt) / nZ nnz.
Definition b_matching (c : counts4) : N :=
  let '(ntt, ntf, nft, nff) := c in nZ (ntf + nft) / nZ (c_total c).
Definition b_dice (c : counts4) : N :=
  let '(ntt, ntf, nft, nff) := c in
  let nne := (ntf + nft)%Z in
  if (nne =? 0)%Z then 0 else nZ nne / (n2 * nZ ntt + nZ nne).
Definition b_kulsinski (c : counts4) : N :=
  let '(ntt, ntf, nft, nff) := c in
  let nne := (ntf + nft)%Z in let n := c_total c in
  if (nne =? 0)%Z then 0 else nZ (nne - ntt + n) / nZ (nne + n).
Definition b_rogerstanimoto (c : counts4) : N :=
  let '(ntt, ntf, nft, nff) := c in
  let nne := (ntf + nft)%Z in let n := c_total c in
  (n2 * nZ nne) / nZ (n + nne).
Definition b_russellrao (c : counts4) : N :=
  let '(ntt, ntf, nft, nff) := c in
  let n := c_total c in
  if (ntt =? ntt + ntf)%Z && (ntt =? ntt + nft)%Z then 0 else nZ (n - ntt) / nZ n.
Definition b_sokalmichener (c : counts4) : N :=
  let '(ntt, ntf, nft, nff) := c in
  let nne := (ntf + nft)%Z in let n := c_total c in
  (n2 * nZ nne) / nZ (n + nne).
Definition b_sokalsneath (c : counts4) : N :=
  let '(ntt, ntf, nft, nff) := c in
  let nne := (ntf + nft)%Z in
  if (nne =? 0)%Z then 0 else nZ nne / (nhalf * nZ ntt + nZ nne).
Definition b_yule (c : counts4) : N :=
  let '(ntt, ntf, nft, nff) := c in
  if (ntf =? 0)%Z || (nft =? 0)%Z then 0
  else (n2 * nZ ntf * nZ nft) / (nZ ntt * nZ nff + nZ ntf * nZ nft).

Definition d_jaccard (x y : list N) : N := b_jaccard (counts x y).
Definition d_matching (x y : list N) : N := b_matching (counts x y).
Definition d_dice (x y : list N) : N := b_dice (counts x y).
Definition d_kulsinski (x y : list N) : N := b_kulsinski (counts x y).
Definition d_rogerstanimoto (x y : list N) : N := b_rogerstanimoto (counts x y).
Definition d_russellrao (x y : list N) : N := b_russellrao (counts x y).
Definition d_sokalmichener (x y : list N) : N := b_sokalmichener (counts x y).
Definition d_sokalsneath (x y : list N) : N := b_sokalsneath (counts x y).
Definition d_yule (x y : list N) : N := b_yule (counts x y).

End Metrics.

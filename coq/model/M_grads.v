(* C14: the *_grad functions registered in umap/distances.py named_distances_with_gradients
   (distances.py:35-48, 66-79, 96-108, 125-142, 164-188, 205-225, 246-270, 291-309, 333-346, 363-378,
   504-531, 574-594, 646-674, 781-810, 813-845, 874-997).  Executable definitions only.
   Each function returns (distance, gradient list) exactly as the source computes them; vectors are lists,
   a [for] loop that accumulates is a [fold_left] in the source's order.
   Six functions are modelled in their REPAIRED form (proposed_fixes/C14_*.diff): cosine_grad,
   minkowski_grad, weighted_minkowski_grad, correlation_grad, hellinger_grad, bray_curtis_grad; the
   behaviour before the repair is kept as [*_v0] (used only by the [*_refuted] theorems).
   symmetric_kl_grad and gaussian_energy_grad are modelled as they are (not derivatives: refuted).
   Not modelled: float32 storage of some gradients / of mahalanobis' [diff] (rounding only),
   the two uninitialised trailing entries of diagonal_gaussian_energy_grad's 6-vector. *)
From Coq Require Import List ZArith Bool.
From UV Require Import Num.
Import ListNotations NumNotations.

Section Grads.
Context (N : Num).
(* functions numpy provides that [Num] does not carry: passed in (R: sin cos asin PI; binary64: V_grads) *)
Context (nsin ncos nasin : N -> N) (npi : N).
Local Open Scope num_scope.
Notation "0" := (zero N) : num_scope.
Notation "1" := (one N) : num_scope.

Definition two : N := 1 + 1.
Definition half : N := 1 / two.
Definition eps6 : N := 1 / of_Z N 1000000%Z.        (* the literal 1e-6 *)
Definition eps8 : N := 1 / of_Z N 100000000%Z.      (* the literal 1e-8 *)
Definition eps32 : N := 1 / of_Z N (10 ^ 32)%Z.     (* the literal 1e-32 *)

(* np.sign *)
Definition nsign (a : N) : N := if a <? 0 then neg N 1 else if 0 <? a then 1 else 0.
(* distances.sign (lines 14-19): -1 for a < 0, else 1 *)
Definition usign (a : N) : N := if a <? 0 then neg N 1 else 1.

Definition nmax (a b : N) : N := if a <? b then b else a.
Definition nmin (a b : N) : N := if b <? a then b else a.

(* result = 0.0; for i: result += f(x[i], y[i]) *)
Definition acc2 {B : Type} (f : N -> B -> N) (x : list N) (y : list B) : N :=
  fold_left (fun acc p => acc + f (fst p) (snd p)) (combine x y) 0.
(* np.sum(g(x)) / running sums over one vector *)
Definition acc1 (g : N -> N) (x : list N) : N := fold_left (fun acc a => acc + g a) x 0.
(* elementwise array expression *)
Definition map2 {B : Type} (g : N -> B -> N) (x : list N) (y : list B) : list N :=
  map (fun p => g (fst p) (snd p)) (combine x y).

Definition sq (a : N) : N := a * a.

(* ---- 35-48 ------------------------------------------------------------------------------ *)
Definition euclidean_grad (x y : list N) : N * list N :=
  let result := acc2 (fun a b => sq (a - b)) x y in
  let d := nsqrt N result in
  (d, map2 (fun a b => (a - b) / (eps6 + d)) x y).

(* ---- 66-79: grad = (x - y) / (1e-6 + d * sigma) ----------------------------------------- *)
Definition standardised_euclidean_grad (x y sigma : list N) : N * list N :=
  let ys := combine y sigma in
  let result := acc2 (fun a bs => sq (a - fst bs) / snd bs) x ys in
  let d := nsqrt N result in
  (d, map2 (fun a bs => (a - fst bs) / (eps6 + d * snd bs)) x ys).

(* ---- 96-108 ----------------------------------------------------------------------------- *)
Definition manhattan_grad (x y : list N) : N * list N :=
  (acc2 (fun a b => nabs N (a - b)) x y, map2 (fun a b => nsign (a - b)) x y).

(* ---- 125-142: first index attaining the maximum (strict >) -------------------------------- *)
Fixpoint cheb_loop (i : nat) (x y : list N) (res : N) (mi : nat) : N * nat :=
  match x, y with
  | a :: x', b :: y' =>
      let v := nabs N (a - b) in
      if res <? v then cheb_loop (S i) x' y' v i else cheb_loop (S i) x' y' res mi
  | _, _ => (res, mi)
  end.
Definition chebyshev_grad (x y : list N) : N * list N :=
  let '(res, mi) := cheb_loop 0 x y 0 0%nat in
  let g := nsign (nth mi x 0 - nth mi y 0) in
  (res, map (fun j => if Nat.eqb j mi then g else 0) (seq 0 (length x))).

(* ---- 164-188 (repaired: gradient divided by 1e-6 + result^(1 - 1/p)) ---------------------- *)
Definition minkowski_grad (x y : list N) (p : N) : N * list N :=
  let result := acc2 (fun a b => npow N (nabs N (a - b)) p) x y in
  (npow N result (1 / p),
   map2 (fun a b => npow N (nabs N (a - b)) (p - 1) * usign (a - b) / (eps6 + npow N result (1 - 1 / p))) x y).
(* as found: multiplied by result^(1/(p-1)) *)
Definition minkowski_grad_v0 (x y : list N) (p : N) : N * list N :=
  let result := acc2 (fun a b => npow N (nabs N (a - b)) p) x y in
  (npow N result (1 / p),
   map2 (fun a b => npow N (nabs N (a - b)) (p - 1) * usign (a - b) * npow N result (1 / (p - 1))) x y).

(* ---- 205-225 ------------------------------------------------------------------------------ *)
Definition arccosh (b : N) : N := nln N (b + nsqrt N (b * b - 1)).
Definition hyperboloid_B (x y : list N) : N :=
  let s := nsqrt N (1 + acc1 sq x) in
  let t := nsqrt N (1 + acc1 sq y) in
  let B := fold_left (fun acc p => acc - fst p * snd p) (combine x y) (s * t) in
  if B <=? 1 then 1 + eps8 else B.
Definition hyperboloid_grad (x y : list N) : N * list N :=
  let s := nsqrt N (1 + acc1 sq x) in
  let t := nsqrt N (1 + acc1 sq y) in
  let B := hyperboloid_B x y in
  let grad_coeff := 1 / (nsqrt N (B - 1) * nsqrt N (B + 1)) in
  (arccosh B, map2 (fun a b => grad_coeff * (a * t / s - b)) x y).

(* ---- 246-270 (repaired as minkowski_grad) ------------------------------------------------- *)
Definition weighted_minkowski_grad (x y w : list N) (p : N) : N * list N :=
  let yw := combine y w in
  let result := acc2 (fun a bw => snd bw * npow N (nabs N (a - fst bw)) p) x yw in
  (npow N result (1 / p),
   map2 (fun a bw => snd bw * npow N (nabs N (a - fst bw)) (p - 1) * usign (a - fst bw)
                     / (eps6 + npow N result (1 - 1 / p))) x yw).
Definition weighted_minkowski_grad_v0 (x y w : list N) (p : N) : N * list N :=
  let yw := combine y w in
  let result := acc2 (fun a bw => snd bw * npow N (nabs N (a - fst bw)) p) x yw in
  (npow N result (1 / p),
   map2 (fun a bw => snd bw * npow N (nabs N (a - fst bw)) (p - 1) * usign (a - fst bw)
                     * npow N result (1 / (p - 1))) x yw).

(* ---- 291-309: vinv as a list of rows -------------------------------------------------------- *)
Definition dot (r v : list N) : N := acc2 (fun a b => a * b) r v.
Definition mahalanobis_grad (x y : list N) (vinv : list (list N)) : N * list N :=
  let diff := map2 (fun a b => a - b) x y in
  let grad_tmp := map (fun row => dot row diff) vinv in
  let result := acc2 (fun t d => t * d) grad_tmp diff in
  let dist := nsqrt N result in
  (dist, map (fun g => g / (eps6 + dist)) grad_tmp).

(* ---- 333-346 -------------------------------------------------------------------------------- *)
Definition canberra_term (a b : N) : N :=
  let den := nabs N a + nabs N b in
  if 0 <? den then nabs N (a - b) / den else 0.
Definition canberra_gterm (a b : N) : N :=
  let den := nabs N a + nabs N b in
  if 0 <? den then nsign (a - b) / den - nabs N (a - b) * nsign a / (den * den) else 0.
Definition canberra_grad (x y : list N) : N * list N :=
  (acc2 canberra_term x y, map2 canberra_gterm x y).

(* ---- 363-378 (repaired: "- dist * sign(x + y)") ---------------------------------------------- *)
Definition bray_curtis_grad (x y : list N) : N * list N :=
  let num := acc2 (fun a b => nabs N (a - b)) x y in
  let den := acc2 (fun a b => nabs N (a + b)) x y in
  if 0 <? den then
    let dist := num / den in
    (dist, map2 (fun a b => (nsign (a - b) - dist * nsign (a + b)) / den) x y)
  else (0, map (fun _ => 0) x).
(* as found: "- dist" *)
Definition bray_curtis_grad_v0 (x y : list N) : N * list N :=
  let num := acc2 (fun a b => nabs N (a - b)) x y in
  let den := acc2 (fun a b => nabs N (a + b)) x y in
  if 0 <? den then
    let dist := num / den in
    (dist, map2 (fun a b => (nsign (a - b) - dist) / den) x y)
  else (0, map (fun _ => 0) x).

(* ---- 504-531: 2-vectors (latitude, longitude) -------------------------------------------------- *)
Definition haversine_grad (x y : list N) : N * list N :=
  match x, y with
  | x0 :: x1 :: _, y0 :: y1 :: _ =>
    let sin_lat := nsin (half * (x0 - y0)) in
    let cos_lat := ncos (half * (x0 - y0)) in
    let sin_long := nsin (half * (x1 - y1)) in
    let cos_long := ncos (half * (x1 - y1)) in
    let a_0 := ncos (x0 + npi / two) * ncos (y0 + npi / two) * sq sin_long in
    let a_1 := a_0 + sq sin_lat in
    let d := two * nasin (nsqrt N (nmin (nmax (nabs N a_1) 0) 1)) in
    let denom := nsqrt N (nabs N (a_1 - 1)) * nsqrt N (nabs N a_1) in
    (d, [ (sin_lat * cos_lat - nsin (x0 + npi / two) * ncos (y0 + npi / two) * sq sin_long) / (denom + eps6);
          (ncos (x0 + npi / two) * ncos (y0 + npi / two) * sin_long * cos_long) / (denom + eps6) ])
  | _, _ => (0, [])
  end.

(* ---- 574-594 (repaired: no leading minus) ------------------------------------------------------- *)
Definition cosine_sums (x y : list N) : N * N * N :=
  (acc2 (fun a b => a * b) x y, acc2 (fun a _ => sq a) x y, acc2 (fun _ b => sq b) x y).
Definition cosine_grad (x y : list N) : N * list N :=
  let '(result, norm_x, norm_y) := cosine_sums x y in
  if (norm_x =? 0) && (norm_y =? 0) then (0, map (fun _ => 0) x)
  else if (norm_x =? 0) || (norm_y =? 0) then (1, map (fun _ => 0) x)
  else (1 - result / nsqrt N (norm_x * norm_y),
        map2 (fun a b => (a * result - b * norm_x) / nsqrt N (norm_x * norm_x * norm_x * norm_y)) x y).
Definition cosine_grad_v0 (x y : list N) : N * list N :=
  let '(result, norm_x, norm_y) := cosine_sums x y in
  if (norm_x =? 0) && (norm_y =? 0) then (0, map (fun _ => 0) x)
  else if (norm_x =? 0) || (norm_y =? 0) then (1, map (fun _ => 0) x)
  else (1 - result / nsqrt N (norm_x * norm_y),
        map2 (fun a b => - (a * result - b * norm_x) / nsqrt N (norm_x * norm_x * norm_x * norm_y)) x y).

(* ---- 646-674 (repaired: y / (2 * grad_term * dist_denom)) ---------------------------------------- *)
Definition hellinger_gen (v0 : bool) (x y : list N) : N * list N :=
  let result := acc2 (fun a b => nsqrt N (a * b)) x y in
  let l1x := acc2 (fun a _ => a) x y in
  let l1y := acc2 (fun _ b => b) x y in
  if (l1x =? 0) && (l1y =? 0) then (0, map (fun _ => 0) x)
  else if (l1x =? 0) || (l1y =? 0) then (1, map (fun _ => 0) x)
  else
    let dist_denom := nsqrt N (l1x * l1y) in
    let dist := nsqrt N (1 - result / dist_denom) in
    let grad_denom := two * dist in
    let grad_numer_const := (l1y * result) / (two * (dist_denom * dist_denom * dist_denom)) in
    (dist, map2 (fun a b =>
       if v0 then (grad_numer_const - b / nsqrt N (a * b) * dist_denom) / grad_denom
       else (grad_numer_const - b / (two * nsqrt N (a * b) * dist_denom)) / grad_denom) x y).
Definition hellinger_grad := hellinger_gen false.
Definition hellinger_grad_v0 := hellinger_gen true.

(* ---- 781-810: the arguments are overwritten by their normalised versions ---------------------------- *)
Definition kl_normalise (x : list N) (z : N) : list N :=
  let s := acc1 (fun a => a + z) x in map (fun a => (a + z) / s) x.
Definition symmetric_kl_grad (x y : list N) (z : N) : N * list N :=
  let xn := kl_normalise x z in
  let yn := kl_normalise y z in
  let kl1 := acc2 (fun a b => a * nln N (a / b)) xn yn in
  let kl2 := acc2 (fun a b => b * nln N (b / a)) xn yn in
  ((kl1 + kl2) / two, map2 (fun a b => (nln N (b / a) - a / b + 1) / two) xn yn).

(* ---- 813-845 (repaired: "* (1.0 - dist)") ---------------------------------------------------------- *)
Definition correlation_gen (v0 : bool) (x y : list N) : N * list N :=
  let n := of_Z N (Z.of_nat (length x)) in
  let mu_x := acc2 (fun a _ => a) x y / n in
  let mu_y := acc2 (fun _ b => b) x y / n in
  let norm_x := acc2 (fun a _ => sq (a - mu_x)) x y in
  let norm_y := acc2 (fun _ b => sq (b - mu_y)) x y in
  let dot_product := acc2 (fun a b => (a - mu_x) * (b - mu_y)) x y in
  if (norm_x =? 0) && (norm_y =? 0) then (0, map (fun _ => 0) x)
  else if dot_product =? 0 then (1, map (fun _ => 0) x)
  else
    let dist := 1 - dot_product / nsqrt N (norm_x * norm_y) in
    (dist, map2 (fun a b => ((a - mu_x) / norm_x - (b - mu_y) / dot_product) * (if v0 then dist else 1 - dist)) x y).
Definition correlation_grad := correlation_gen false.
Definition correlation_grad_v0 := correlation_gen true.

(* ---- 874-889: x = (mu_1, mu_2, sigma) ---------------------------------------------------------------- *)
Definition spherical_gaussian_energy_grad (x y : list N) : N * list N :=
  match x, y with
  | x0 :: x1 :: x2 :: _, y0 :: y1 :: y2 :: _ =>
    let mu_1 := x0 - y0 in
    let mu_2 := x1 - y1 in
    let sigma := nabs N x2 + nabs N y2 in
    let sign_sigma := nsign x2 in
    (( sq mu_1 + sq mu_2) / (two * sigma) + nln N sigma + nln N (two * npi),
     [ mu_1 / sigma; mu_2 / sigma; sign_sigma * (1 / sigma - (sq mu_1 + sq mu_2) / (two * sq sigma)) ])
  | _, _ => (0, [])
  end.

(* ---- 892-924: x = (mu_1, mu_2, sigma_11, sigma_22); sigma_12 = 0 --------------------------------------- *)
Definition diagonal_gaussian_energy_grad (x y : list N) : N * list N :=
  match x, y with
  | x0 :: x1 :: x2 :: x3 :: _, y0 :: y1 :: y2 :: y3 :: _ =>
    let mu_1 := x0 - y0 in
    let mu_2 := x1 - y1 in
    let sigma_11 := nabs N x2 + nabs N y2 in
    let sigma_12 := 0 in
    let sigma_22 := nabs N x3 + nabs N y3 in
    let det := sigma_11 * sigma_22 in
    let sign_s1 := nsign x2 in
    let sign_s2 := nsign x3 in
    if det =? 0 then (sq mu_1 + sq mu_2, [0; 0; 1; 1]) else
    let cross_term := two * sigma_12 in
    let m_dist := nabs N sigma_22 * sq mu_1 - cross_term * mu_1 * mu_2 + nabs N sigma_11 * sq mu_2 in
    ((m_dist / det + nln N (nabs N det)) / two + nln N (two * npi),
     [ (two * sigma_22 * mu_1 - cross_term * mu_2) / (two * det);
       (two * sigma_11 * mu_2 - cross_term * mu_1) / (two * det);
       sign_s1 * (sigma_22 * (det - m_dist) + det * sq mu_2) / (two * sq det);
       sign_s2 * (sigma_11 * (det - m_dist) + det * sq mu_1) / (two * sq det) ])
  | _, _ => (0, [])
  end.

(* ---- 927-997: x = (mu_1, mu_2, width, height, angle); x[2..4], y[2..4] are overwritten first ----------- *)
Definition ge_normalise (x : list N) : list N :=
  match x with
  | x0 :: x1 :: x2 :: x3 :: x4 :: r => x0 :: x1 :: nabs N x2 :: nabs N x3 :: nasin (nsin x4) :: r
  | _ => x
  end.
Definition gaussian_energy_grad (x y : list N) : N * list N :=
  match ge_normalise x, ge_normalise y with
  | x0 :: x1 :: x2 :: x3 :: x4 :: _, y0 :: y1 :: y2 :: y3 :: y4 :: _ =>
    let mu_1 := x0 - y0 in
    let mu_2 := x1 - y1 in
    let a := y2 * sq (ncos y4) + y3 * sq (nsin y4) in
    let b := (y2 - y3) * nsin y4 * ncos y4 in
    let c := y3 * sq (ncos y4) + y2 * sq (nsin y4) in
    let sigma_11 := x2 * sq (ncos x4) + x3 * sq (nsin x4) + a in
    let sigma_12 := (x2 - x3) * nsin x4 * ncos x4 + b in
    let sigma_22 := x2 * sq (nsin x4) + x3 * sq (ncos x4) + c in
    let det_sigma := nabs N (sigma_11 * sigma_22 - sq sigma_12) in
    let numer := sigma_22 * sq mu_1 - two * sigma_12 * mu_1 * mu_2 + sigma_11 * sq mu_2 in
    if det_sigma <? eps32 then (sq mu_1 + sq mu_2, [0; 0; 1; 1; 0]) else
    let dist := numer / det_sigma + nln N det_sigma + nln N (two * npi) in
    let g0 := (two * sigma_22 * mu_1 - two * sigma_12 * mu_2) / det_sigma in
    let g1 := (two * sigma_11 * mu_2 - two * sigma_12 * mu_1) / det_sigma in
    let g2 := mu_2 * (mu_2 * sq (ncos x4) - mu_1 * ncos x4 * nsin x4) in
    let g2 := g2 + mu_1 * (mu_1 * sq (nsin x4) - mu_2 * ncos x4 * nsin x4) in
    let g2 := g2 * det_sigma in
    let g2 := g2 - numer * sq (ncos x4) * sigma_22 in
    let g2 := g2 - numer * sq (nsin x4) * sigma_11 in
    let g2 := g2 + numer * two * sigma_12 * nsin x4 * ncos x4 in
    let g2 := g2 / (sq det_sigma + eps8) in
    let g3 := mu_1 * (mu_1 * sq (ncos x4) - mu_2 * ncos x4 * nsin x4) in
    let g3 := g3 + mu_2 * (mu_2 * sq (nsin x4) - mu_1 * ncos x4 * nsin x4) in
    let g3 := g3 * det_sigma in
    let g3 := g3 - numer * sq (nsin x4) * sigma_22 in
    let g3 := g3 - numer * sq (ncos x4) * sigma_11 in
    let g3 := g3 - numer * two * sigma_12 * nsin x4 * ncos x4 in
    let g3 := g3 / (sq det_sigma + eps8) in
    let g4 := (x3 - x2) * (two * mu_1 * mu_2 * ncos (two * x4) - (sq mu_1 - sq mu_2) * nsin (two * x4)) in
    let g4 := g4 * det_sigma in
    let g4 := g4 - numer * (x3 - x2) * nsin (two * x4) * sigma_22 in
    let g4 := g4 - numer * (x2 - x3) * nsin (two * x4) * sigma_11 in
    let g4 := g4 - numer * two * sigma_12 * (x2 - x3) * ncos (two * x4) in
    let g4 := g4 / (sq det_sigma + eps8) in
    (dist, [g0; g1; g2; g3; g4])
  | _, _ => (0, [])
  end.

End Grads.

(* C08 / C09: a buffer / alias machine and the hand abstraction of UMAP's data flow over it.
   umap/umap_.py: fit 2344-2871 (check_array 2367-2379, init 2400-2406, precomputed_knn 2405-2411 & 2056-2059,
   sort_indices 2480, kNN + disconnection edit 2499-2520 / 2590-2591 / 2636-2660, supervision 2696-2810,
   layout call 2813-2860), simplicial_set_embedding 1068-1095 (+ init 1097-1150, optimise 1196-1245),
   fuzzy_simplicial_set 569-603, discrete_metric_simplicial_set_intersection 775-805, reset_local_connectivity 748-770,
   general_simplicial_set_intersection / union 858-903 (umap/sparse.py 145-231 write result_val in place),
   operators 2125-2337, transform 2975-3200, inverse_transform 3203-3365, update 3367-3600.
   Executable definitions only.

   A state is an environment (name -> location, newest binding first) and a heap (location -> cell).  A cell carries a
   version counter (bumped whenever the bytes of the buffer may change), SciPy's canonical-format flag, a
   may-hold-explicit-zeros flag and the owner (the caller, or the library).  Buffers are never freed.
   An unbound name makes an operation stuck ([None]); nothing is totalised silently. *)
From Coq Require Import List Bool Arith.
Import ListNotations.

(* ---- names -------------------------------------------------------------------------------------------- *)
Inductive attr := Embedding | GData | GIndices | GIndptr | RawData | Sigmas | Rhos | KnnIdx | KnnDist.
Inductive cvar := CX | CY | CInit | CKIdx | CKDist | CXnew.   (* CXnew: the array given to transform / inverse_transform / update *)
Inductive name :=
| Caller (c : cvar)            (* a variable of the calling program *)
| Attr (m : nat) (a : attr)    (* attribute a of model object number m *)
| Tmp (k : nat).               (* a local variable of the running method *)

Definition attr_code (a : attr) : nat :=
  match a with Embedding => 0 | GData => 1 | GIndices => 2 | GIndptr => 3 | RawData => 4 | Sigmas => 5 | Rhos => 6
             | KnnIdx => 7 | KnnDist => 8 end.
Definition cvar_code (c : cvar) : nat :=
  match c with CX => 0 | CY => 1 | CInit => 2 | CKIdx => 3 | CKDist => 4 | CXnew => 5 end.
Definition name_eqb (x y : name) : bool :=
  match x, y with
  | Caller a, Caller b => Nat.eqb (cvar_code a) (cvar_code b)
  | Attr m a, Attr n b => Nat.eqb (attr_code a) (attr_code b) && Nat.eqb m n
  | Tmp j, Tmp k => Nat.eqb j k
  | _, _ => false
  end.

(* ---- states ------------------------------------------------------------------------------------------- *)
Inductive owner := OCaller | OLib.
Record cell := mkCell { ver : nat; canon : bool; zeros : bool; own : owner }.
Record state := mkState { env : list (name * nat); heap : list cell }.

Fixpoint lookup (e : list (name * nat)) (x : name) : option nat :=
  match e with
  | [] => None
  | (y, l) :: r => if name_eqb x y then Some l else lookup r x
  end.
Definition cell_at (s : state) (l : nat) : option cell := nth_error (heap s) l.
Definition cell_of (s : state) (x : name) : option cell :=
  match lookup (env s) x with Some l => cell_at s l | None => None end.

Fixpoint upd {A} (h : list A) (l : nat) (c : A) : list A :=
  match h, l with
  | [], _ => []
  | _ :: r, O => c :: r
  | x :: r, S l' => x :: upd r l' c
  end.

Definition bind (s : state) (x : name) (l : nat) : state := mkState ((x, l) :: env s) (heap s).
Definition fresh (s : state) (x : name) (c : cell) : state :=
  mkState ((x, length (heap s)) :: env s) (heap s ++ [c]).
Definition bump (c : cell) (z : bool) : cell := mkCell (S (ver c)) (canon c) (zeros c || z) (own c).
Definition newcell (c z : bool) : cell := mkCell 0 c z OLib.
Definition copycell (c : cell) : cell := mkCell 0 (canon c) (zeros c) OLib.

(* ---- operations --------------------------------------------------------------------------------------- *)
Inductive op :=
| Alloc (x : name) (c z : bool)          (* x := a new library buffer (canonical flag c, may hold explicit zeros z) *)
| Alias (x y : name)                     (* x := y                                  (same buffer) *)
| View (x y : name)                      (* x := y[:, :k] / y.reshape / y.T         (same buffer: writes go through) *)
| Copy (x y : name)                      (* x := y.copy() / y[index] / np.array(y) / astype(copy=True) / vstack / expandptr *)
| Read (x : name)                        (* x is read (must be bound); no effect *)
| WriteInPlace (x : name) (z : bool)     (* x[mask] = v with a non-empty mask, or a numba kernel writing x; z: zeros are written *)
| ToCoo (x y : name) (copy : bool)       (* x := y.tocoo(copy=copy): shared iff not copy; canonical flag preserved (scipy _csr.tocoo) *)
| SumDuplicates (x : name)               (* coo.sum_duplicates(): nothing when canonical, else x is rebound to a new canonical buffer *)
| EliminateZeros (x : name) (inplace : bool)
                                         (* coo: data = data[mask] rebinds x to a new buffer; csr (inplace): compacts the buffer itself *)
| CheckArray (x y : name) (conforms : bool)   (* sklearn check_array: y itself iff dtype / order / sparse format conform, else a converted copy *)
| AsType (x y : name) (copy same : bool)      (* ndarray.astype(dtype, copy=copy): y itself iff not copy and the dtype is already right *)
| SortIndices (x : name) (sorted : bool).     (* csr.sort_indices(): in place; bytes change iff not already sorted *)

Definition step (o : op) (s : state) : option state :=
  match o with
  | Alloc x c z => Some (fresh s x (newcell c z))
  | Alias x y | View x y =>
      match lookup (env s) y with Some l => Some (bind s x l) | None => None end
  | Copy x y =>
      match cell_of s y with Some c => Some (fresh s x (copycell c)) | None => None end
  | Read x =>
      match cell_of s x with Some _ => Some s | None => None end
  | WriteInPlace x z =>
      match lookup (env s) x with
      | Some l => match cell_at s l with
                  | Some c => Some (mkState (env s) (upd (heap s) l (bump c z)))
                  | None => None end
      | None => None end
  | ToCoo x y copy =>
      match lookup (env s) y with
      | Some l => match cell_at s l with
                  | Some c => Some (if copy then fresh s x (copycell c) else bind s x l)
                  | None => None end
      | None => None end
  | SumDuplicates x =>
      match cell_of s x with
      | Some c => Some (if canon c then s else fresh s x (mkCell 0 true (zeros c) OLib))
      | None => None end
  | EliminateZeros x inplace =>
      match lookup (env s) x with
      | Some l => match cell_at s l with
                  | Some c =>
                      if inplace
                      then Some (if zeros c then mkState (env s) (upd (heap s) l (mkCell (S (ver c)) (canon c) false (own c))) else s)
                      else Some (fresh s x (mkCell 0 (canon c) false OLib))
                  | None => None end
      | None => None end
  | CheckArray x y conforms =>
      match lookup (env s) y with
      | Some l => match cell_at s l with
                  | Some c => Some (if conforms then bind s x l else fresh s x (copycell c))
                  | None => None end
      | None => None end
  | AsType x y copy same =>
      match lookup (env s) y with
      | Some l => match cell_at s l with
                  | Some c => Some (if copy || negb same then fresh s x (copycell c) else bind s x l)
                  | None => None end
      | None => None end
  | SortIndices x sorted =>
      match lookup (env s) x with
      | Some l => match cell_at s l with
                  | Some c => Some (if sorted then s else mkState (env s) (upd (heap s) l (bump c false)))
                  | None => None end
      | None => None end
  end.

Fixpoint run (p : list op) (s : state) : option state :=
  match p with
  | [] => Some s
  | o :: r => match step o s with Some s' => run r s' | None => None end
  end.

(* ---- sparse matrices: three buffers (CSR: data, indices, indptr; COO: data, col, row) ------------------- *)
Definition mat := (name * name * name)%type.
Definition mdata (M : mat) : name := fst (fst M).
Definition gmat (m : nat) : mat := (Attr m GData, Attr m GIndices, Attr m GIndptr).
Definition tmat (k : nat) : mat := (Tmp (100 + 3 * k), Tmp (101 + 3 * k), Tmp (102 + 3 * k)).
Definition m_alloc (M : mat) (c z : bool) : list op :=
  let '(d, i, p) := M in [Alloc d c z; Alloc i c false; Alloc p c false].
Definition m_alias (M' M : mat) : list op :=
  let '(d', i', p') := M' in let '(d, i, p) := M in [Alias d' d; Alias i' i; Alias p' p].
Definition m_read (M : mat) : list op := let '(d, i, p) := M in [Read d; Read i; Read p].
(* csr.tocoo(copy): data and column indices are shared unless copy; the row array is always new (expandptr) *)
Definition m_tocoo (M' M : mat) (copy : bool) : list op :=
  let '(d', i', p') := M' in let '(d, i, p) := M in [ToCoo d' d copy; ToCoo i' i copy; Copy p' p].
Definition m_sumdup (M : mat) : list op := let '(d, i, p) := M in [SumDuplicates d; SumDuplicates i; SumDuplicates p].
Definition m_elim (M : mat) (inplace : bool) : list op :=
  let '(d, i, p) := M in [EliminateZeros d inplace; EliminateZeros i inplace; EliminateZeros p inplace].

(* ---- attribute valuations ------------------------------------------------------------------------------ *)
Inductive metric_class := MNamed | MPrecomputed | MBit.
Inductive target := TNone | TCategorical | TContinuous.
Inductive init_kind := IString | IArray (conforms : bool).

(* environment facts probed at run time *)
Record facts := mkFacts {
  f_tocoo_shares : bool        (* np.shares_memory(csr.tocoo().data, csr.data): the default of csr.tocoo is copy=False *)
}.
(* which repairs the source carries (all true on the current tree; false reproduces the old code) *)
Record fixes := mkFixes {
  fx_tocoo : bool;             (* simplicial_set_embedding: graph.tocoo(copy=True)                     (feb32e9) *)
  fx_knn : bool;               (* fit: private copies of the precomputed_knn arrays before the disconnection edit *)
  fx_sub : bool;               (* general_simplicial_set_intersection(right_complement): simplicial_set1.tocoo(copy=True) *)
  fx_tail : bool               (* transform: optimises against self.embedding_.astype(np.float32, copy=True), move_other=False (#179, #217) *)
}.
Definition cur : fixes := mkFixes true true true true.

(* graph-stage attributes *)
Record gcfg := mkG {
  g_sparse : bool;             (* X is a scipy.sparse matrix *)
  g_xconf : bool;              (* check_array returns X itself: float32 (uint8 for bit metrics), C order / CSR *)
  g_xsorted : bool;            (* CSR indices already sorted *)
  g_metric : metric_class;
  g_knn : bool;                (* precomputed_knn supplied and accepted *)
  g_wide : bool;               (* it has more columns than n_neighbors: pruned to a column view (2056-2059) *)
  g_disc : bool;               (* some distance reaches the disconnection distance *)
  g_small : bool;              (* fewer than 4096 samples and not force_approximation_algorithm *)
  g_target : target;
  g_yconf : bool               (* check_array(y) returns y itself *)
}.
(* densmap / output_dens only add graph_dists_ (a further new buffer) and read graph.data: they decide no copy and are not attributes. *)
(* layout-stage attributes (decided by n_epochs, init, learning_rate, ...): none is an argument of [graph_stage] *)
Record lcfg := mkL {
  l_init : init_kind;
  l_weak : bool;               (* some edge is weaker than max / n_epochs, i.e. the pruning writes *)
  l_list : bool;               (* n_epochs is a list *)
  l_embed : bool               (* transform_mode = "embedding" *)
}.

(* ---- local names ---------------------------------------------------------------------------------------- *)
Definition tX := Tmp 0.      Definition tInit := Tmp 1.   Definition tKI := Tmp 2.    Definition tKD := Tmp 3.
Definition tXi := Tmp 4.     Definition tDmat := Tmp 5.   Definition tY := Tmp 6.     Definition tY_ := Tmp 7.
Definition tKD32 := Tmp 8.   Definition tGD := Tmp 9.     Definition tXe := Tmp 10.   Definition tE := Tmp 11.
Definition tE2 := Tmp 12.    Definition tRes := Tmp 13.   Definition tI := Tmp 14.    Definition tD := Tmp 15.
Definition tTail := Tmp 16.  Definition tP := Tmp 17.     Definition tInit0 := Tmp 18.
Definition tSKI := Tmp 19.   Definition tSKD := Tmp 20.   (* self._knn_indices / self._knn_dists while they are being edited *)

(* Convention: in-place writes are issued through the local alias of the buffer (a [Tmp] name); where the source writes
   through an attribute (self._knn_indices[...] = -1, self.embedding_[...] = nan) the attribute and the local name are bound
   to the same location, so the effect on the heap is identical. *)

(* ---- pieces shared by the programs ------------------------------------------------------------------- *)
(* fuzzy_simplicial_set (569-603): float32 copy of the distances, new sigmas / rhos, a new CSR, eliminate_zeros on it *)
Definition fuzzy (m : nat) (knn_given : bool) : list op :=
  (if knn_given then [Read tSKI; Copy tKD32 tSKD] else [Alloc tSKI false false; Alloc tKD32 false false])
  ++ [Alloc (Attr m Sigmas) false false; Alloc (Attr m Rhos) false false]
  ++ m_alloc (tmat 0) true true ++ m_elim (tmat 0) true
  ++ [Alloc tGD true false]                                          (* graph_dists_ (when requested) *)
  ++ m_alias (gmat m) (tmat 0).

(* the disconnection edit (2516-2520, 2656-2660); the copy is the repair of this round *)
Definition disc_edit (fx : fixes) (knn disc : bool) : list op :=
  if disc then
    (if knn && fx_knn fx then [Copy tSKI tSKI; Copy tSKD tSKD] else [])
    ++ [WriteInPlace tSKI false; WriteInPlace tSKD false]
  else [].

(* reset_local_connectivity (748-770) of the matrix S, result in R *)
Definition reset_lc (f : facts) (S N N' R : mat) (reset_metric : bool) : list op :=
  m_read S ++ m_alloc N true false                                   (* normalize(S, norm="max"): a new CSR *)
  ++ (if reset_metric
      then [WriteInPlace (mdata N) false] ++ m_tocoo N' N (negb (f_tocoo_shares f))   (* reset_local_metrics writes N.data; N.tocoo() *)
      else m_alias N' N)
  ++ m_read N' ++ m_alloc R true true ++ m_elim R true.

(* simplicial_set_embedding (1068-1095 + init + optimiser) on the CSR G *)
Definition sse (f : facts) (fx : fixes) (G : mat) (init_array : option name) (weak list_epochs : bool) : list op :=
  m_tocoo (tmat 1) G (fx_tocoo fx || negb (f_tocoo_shares f))        (* graph = graph.tocoo(copy=True) *)
  ++ m_sumdup (tmat 1)                                               (* graph.sum_duplicates() *)
  ++ (if weak then [WriteInPlace (mdata (tmat 1)) true] else [])     (* graph.data[graph.data < max / n_epochs] = 0.0 *)
  ++ m_elim (tmat 1) false                                           (* graph.eliminate_zeros()  (COO) *)
  ++ match init_array with
     | Some a => [Copy tE a]                                         (* init_data = np.array(init) *)
     | None => [Alloc tE false false]
     end
  ++ [Alloc tE2 false false; WriteInPlace tE2 false]                 (* rescaled .astype(float32) copy, optimised in place *)
  ++ (if list_epochs then [Copy tE2 tE2] else []).                   (* embedding_list[-1].copy() *)

(* ---- fit ------------------------------------------------------------------------------------------------ *)
Definition sparse_pre (g : gcfg) : bool :=
  g_sparse g && match g_metric g with MPrecomputed => true | _ => false end.
Definition small_path (g : gcfg) : bool := g_small g && negb (g_knn g).   (* a supplied kNN forces the approximate path (2049-2055) *)

Definition supervise (f : facts) (m : nat) (g : gcfg) : list op :=
  match g_target g with
  | TNone => []
  | TCategorical =>
      [CheckArray tY (Caller CY) (g_yconf g); Copy tY_ tY]                         (* check_array(y)[index] *)
      ++ m_read (gmat m)
      ++ m_tocoo (tmat 2) (tmat 0) (negb (f_tocoo_shares f))                        (* self.graph_ (= the CSR just built) .tocoo() (775) *)
      ++ [WriteInPlace (mdata (tmat 2)) true]                                       (* fast_intersection scales the values in place *)
      ++ m_elim (tmat 2) false
      ++ reset_lc f (tmat 2) (tmat 3) (tmat 4) (tmat 5) false
      ++ m_alias (gmat m) (tmat 5)
  | TContinuous =>
      [CheckArray tY (Caller CY) (g_yconf g); Copy tY_ tY]
      ++ m_alloc (tmat 6) true false                                                (* target graph *)
      ++ m_read (gmat m) ++ m_alloc (tmat 2) true false                             (* (s1 + s2).tocoo(): new *)
      ++ [WriteInPlace (mdata (tmat 2)) true]                                       (* general_sset_intersection writes result_val *)
      ++ reset_lc f (tmat 2) (tmat 3) (tmat 4) (tmat 5) false
      ++ m_alias (gmat m) (tmat 5)
  end.

Definition graph_stage (f : facts) (fx : fixes) (m : nat) (g : gcfg) : list op :=
  [CheckArray tX (Caller CX) (g_xconf g); Alias (Attr m RawData) tX]                (* 2367-2379 *)
  ++ (if g_knn g
      then (if g_wide g then [View tKI (Caller CKIdx); View tKD (Caller CKDist)]    (* 2058-2059 *)
            else [Alias tKI (Caller CKIdx); Alias tKD (Caller CKDist)])            (* 2405-2406 *)
      else [])
  ++ (if g_sparse g then [SortIndices tX (g_xsorted g)] else [])                   (* 2480: X.sort_indices() *)
  ++ (if sparse_pre g || negb (small_path g)
      then (if g_knn g then [Alias tSKI tKI; Alias tSKD tKD]                        (* self._knn_indices = self.knn_indices (2514-2515, 2653-2654) *)
            else [Alloc tSKI false false; Alloc tSKD false false])                  (* argsort rows / nearest_neighbors(X[index]) *)
           ++ disc_edit fx (g_knn g) (g_disc g)
           ++ [Alias (Attr m KnnIdx) tSKI; Alias (Attr m KnnDist) tSKD]
           ++ [Copy tXi tX] ++ fuzzy m true
      else [Copy tXi tX]                                                             (* X[index] *)
           ++ (match g_metric g with MPrecomputed => [Alias tDmat tXi] | _ => [Alloc tDmat false false] end)
           ++ (if g_disc g then [WriteInPlace tDmat false] else [])                  (* dmat[dmat >= d] = inf *)
           ++ fuzzy m false)
  ++ supervise f m g.

Definition layout_stage (f : facts) (fx : fixes) (m : nat) (g : gcfg) (l : lcfg) : list op :=
  (match l_init l with IString => [] | IArray c => [CheckArray tInit (Caller CInit) c] end)   (* 2400-2406 *)
  ++ (if l_embed l
      then [Copy tXe (Attr m RawData)]                                               (* self._raw_data[index] *)
           ++ sse f fx (gmat m) (match l_init l with IString => None | IArray _ => Some tInit end) (l_weak l) (l_list l)
           ++ [Alias (Attr m Embedding) tE2]
           ++ m_read (gmat m)                                                        (* graph_.sum(axis=1) *)
           ++ (if g_disc g then [WriteInPlace tE2 false] else [])                    (* self.embedding_[disconnected] = nan *)
           ++ [Copy (Attr m Embedding) tE2]                                          (* embedding_[inverse] *)
      else []).

Definition fit_prog (f : facts) (fx : fixes) (m : nat) (g : gcfg) (l : lcfg) : list op :=
  graph_stage f fx m g ++ layout_stage f fx m g l.

(* ---- transform / inverse_transform / update ------------------------------------------------------------ *)
Record tcfg := mkT {
  t_conf : bool;               (* check_array returns the argument itself *)
  t_same : bool;               (* joblib hash equals the training hash: the stored embedding is returned *)
  t_graph : bool;              (* transform_mode = "graph" *)
  t_disc : bool;               (* some query distance reaches the disconnection distance *)
  t_weak : bool
}.
Definition transform_prog (f : facts) (fx : fixes) (m : nat) (t : tcfg) : list op :=
  [CheckArray tX (Caller CXnew) (t_conf t); Read (Attr m RawData)]
  ++ (if t_same t then [Alias tRes (if t_graph t then Attr m GData else Attr m Embedding)]    (* return self.embedding_ / self.graph_ *)
      else [Alloc tI false false; Alloc tD false false; AsType tD tD true true]      (* dists.astype(np.float32, order="C") *)
           ++ (if t_disc t then [WriteInPlace tI false] else [])
           ++ m_alloc (tmat 1) false false                                           (* coo_matrix((vals, (rows, cols))) *)
           ++ (if t_graph t then [Alias tRes (mdata (tmat 1))]
               else m_alloc (tmat 2) true false ++ m_elim (tmat 2) true              (* graph.tocsr(); eliminate_zeros *)
                    ++ [Read (Attr m Embedding); Alloc tE false false]               (* init_graph_transform *)
                    ++ (if t_weak t then [WriteInPlace (mdata (tmat 1)) true] else [])
                    ++ m_elim (tmat 1) false
                    ++ (if fx_tail fx then [Copy tTail (Attr m Embedding)]           (* .astype(np.float32, copy=True); move_other=False *)
                        else [Alias tTail (Attr m Embedding); WriteInPlace tTail false])
                    ++ [WriteInPlace tE false; Alias tRes tE])).

Definition inverse_prog (m : nat) (conf : bool) : list op :=
  [CheckArray tX (Caller CXnew) conf; Read (Attr m Embedding); Read (Attr m RawData); Read (Attr m Sigmas); Read (Attr m Rhos);
   Alloc tP false false;                                                             (* init_transform(inds, weights, self._raw_data) *)
   WriteInPlace tP false; Alias tRes tP].                                            (* optimize_layout_inverse moves the new points only *)

Record ucfg := mkU {
  u_conf : bool;
  u_small : bool;              (* the model was fitted on the small-data path *)
  u_still : bool;              (* and the stacked data is still small *)
  u_weak : bool
}.
Definition update_prog (f : facts) (fx : fixes) (m : nat) (u : ucfg) : list op :=
  [CheckArray tX (Caller CXnew) (u_conf u); Read (Attr m RawData)]
  ++ (if u_small u
      then [Copy (Attr m RawData) (Attr m RawData)]                                  (* vstack([self._raw_data, X]) *)
           ++ (if u_still u then [Alloc tDmat false false] ++ fuzzy m false
               else [Alloc tSKI false false; Alloc tSKD false false; Alias (Attr m KnnIdx) tSKI; Alias (Attr m KnnDist) tSKD]
                    ++ fuzzy m true)
      else [Alloc (Attr m RawData) false false; Alloc tSKI false false; Alloc tSKD false false;      (* search index update *)
            Alias (Attr m KnnIdx) tSKI; Alias (Attr m KnnDist) tSKD]
           ++ fuzzy m true)
  ++ [Alloc tInit0 false false; Read (Attr m Embedding); WriteInPlace tInit0 false]  (* init[:n] = embedding_; init_update *)
  ++ sse f fx (gmat m) (Some tInit0) (u_weak u) false
  ++ [Alias (Attr m Embedding) tE2].

(* ---- model-combination operators (2131-2337): operands a, b; the result is model object r --------------- *)
Inductive okind := OMul | OAdd | OSub.
Definition combine_prog (f : facts) (fx : fixes) (k : okind) (a b r : nat) (weak : bool) : list op :=
  m_read (gmat a) ++ m_read (gmat b)
  ++ (match k with
      | OSub => m_tocoo (tmat 2) (gmat a) (fx_sub fx || negb (f_tocoo_shares f))     (* result = simplicial_set1.tocoo(copy=True) (867) *)
      | _ => m_alloc (tmat 2) true false                                             (* (s1 + s2).tocoo() *)
      end)
  ++ [WriteInPlace (mdata (tmat 2)) true]                                            (* sparse.general_sset_* write result_val *)
  ++ reset_lc f (tmat 2) (tmat 3) (tmat 4) (tmat 5) (match k with OSub => false | _ => true end)
  ++ m_alias (gmat r) (tmat 5)
  ++ sse f fx (gmat r) None weak false
  ++ [Alias (Attr r Embedding) tE2].

(* ---- read-only operations and histories ---------------------------------------------------------------- *)
Inductive rop :=
| RTransform (m : nat) (t : tcfg)
| RInverse (m : nat) (conf : bool)
| RCombine (k : okind) (a b r : nat) (weak : bool).

Definition rop_prog (f : facts) (fx : fixes) (o : rop) : list op :=
  match o with
  | RTransform m t => transform_prog f fx m t
  | RInverse m c => inverse_prog m c
  | RCombine k a b r w => combine_prog f fx k a b r w
  end.
Definition rop_step (f : facts) (fx : fixes) (s : option state) (o : rop) : option state :=
  match s with Some s => run (rop_prog f fx o) s | None => None end.
Definition run_rops (f : facts) (fx : fixes) (ops : list rop) (s : state) : option state :=
  fold_left (rop_step f fx) ops (Some s).
Definition result_of (o : rop) : list nat := match o with RCombine _ _ _ r _ => [r] | _ => [] end.
Definition results (ops : list rop) : list nat := flat_map result_of ops.

(* ---- initial state: the caller's arrays ---------------------------------------------------------------- *)
Definition ccell : cell := mkCell 0 false false OCaller.
Definition init_state : state :=
  mkState [(Caller CX, 0); (Caller CY, 1); (Caller CInit, 2); (Caller CKIdx, 3); (Caller CKDist, 4); (Caller CXnew, 5)]
          [ccell; ccell; ccell; ccell; ccell; ccell].

(* ---- observations -------------------------------------------------------------------------------------- *)
Definition same_buffer (s : state) (x y : name) : bool :=
  match lookup (env s) x, lookup (env s) y with Some a, Some b => Nat.eqb a b | _, _ => false end.
Definition ver_of (s : state) (x : name) : option nat := option_map ver (cell_of s x).
(* location and cell of the three graph buffers *)
Definition graph_view (s : state) (m : nat) : option ((nat * cell) * (nat * cell) * (nat * cell)) :=
  let get x := match lookup (env s) x with
               | Some l => match cell_at s l with Some c => Some (l, c) | None => None end
               | None => None end in
  match get (Attr m GData), get (Attr m GIndices), get (Attr m GIndptr) with
  | Some a, Some b, Some c => Some (a, b, c)
  | _, _, _ => None
  end.
Definition graph_zeros (s : state) (m : nat) : option bool := option_map zeros (cell_of s (Attr m GData)).
Definition graph_canon (s : state) (m : nat) : option bool := option_map canon (cell_of s (Attr m GData)).

(* ---- static analysis used by the frame theorems: names known to be bound to buffers allocated by the running program;
        [None] = the program may write a buffer that existed before it started ---------------------------------------- *)
Fixpoint mem (x : name) (l : list name) : bool :=
  match l with [] => false | y :: r => name_eqb x y || mem x r end.
Fixpoint remove (x : name) (l : list name) : list name :=
  match l with [] => [] | y :: r => if name_eqb x y then remove x r else y :: remove x r end.
Definition is_tmp (x : name) : bool := match x with Tmp _ => true | _ => false end.
(* only local names are tracked (conservative): attributes and caller variables are never assumed fresh *)
Definition rebind (fr : list name) (x : name) (is_fresh : bool) : list name :=
  if is_fresh && is_tmp x then x :: fr else remove x fr.
Definition analyse (fr : list name) (o : op) : option (list name) :=
  match o with
  | Alloc x _ _ => Some (rebind fr x true)
  | Copy x _ => Some (rebind fr x true)
  | Alias x y | View x y => Some (rebind fr x (mem y fr))
  | Read _ => Some fr
  | ToCoo x y copy => Some (rebind fr x (copy || mem y fr))
  | CheckArray x y conforms => Some (rebind fr x (negb conforms || mem y fr))
  | AsType x y copy same => Some (rebind fr x (copy || negb same || mem y fr))
  | SumDuplicates _ => Some fr
  | EliminateZeros x inplace => if inplace then (if mem x fr then Some fr else None) else Some (rebind fr x true)
  | WriteInPlace x _ => if mem x fr then Some fr else None
  | SortIndices x sorted => if sorted || mem x fr then Some fr else None
  end.
Fixpoint analyse_prog (fr : list name) (p : list op) : option (list name) :=
  match p with
  | [] => Some fr
  | o :: r => match analyse fr o with Some fr' => analyse_prog fr' r | None => None end
  end.
Definition safe (p : list op) : bool := match analyse_prog [] p with Some _ => true | None => false end.

(* names a program (re)binds *)
Definition binds_op (o : op) : list name :=
  match o with
  | Alloc x _ _ | Alias x _ | View x _ | Copy x _ | ToCoo x _ _ | SumDuplicates x | CheckArray x _ _ | AsType x _ _ _ => [x]
  | EliminateZeros x inplace => if inplace then [] else [x]
  | Read _ | WriteInPlace _ _ | SortIndices _ _ => []
  end.
Definition binds (p : list op) : list name := flat_map binds_op p.
Definition local_or_result (rs : list nat) (x : name) : bool :=
  match x with Tmp _ => true | Attr m _ => existsb (Nat.eqb m) rs | Caller _ => false end.

(* ---- finite attribute spaces --------------------------------------------------------------------------- *)
Definition bools : list bool := [true; false].
Definition all_metrics : list metric_class := [MNamed; MPrecomputed; MBit].
Definition all_targets : list target := [TNone; TCategorical; TContinuous].
Definition all_inits : list init_kind := [IString; IArray true; IArray false].
Definition all_okinds : list okind := [OMul; OAdd; OSub].
Definition all_facts : list facts := map mkFacts bools.
Definition all_gcfg : list gcfg :=
  flat_map (fun a => flat_map (fun b => flat_map (fun c => flat_map (fun d => flat_map (fun e => flat_map (fun h =>
  flat_map (fun i => flat_map (fun j => flat_map (fun k => map (fun n =>
    mkG a b c d e h i j k n) bools) all_targets) bools) bools) bools) bools) all_metrics) bools) bools) bools.
Definition all_lcfg : list lcfg :=
  flat_map (fun a => flat_map (fun b => flat_map (fun c => map (fun d => mkL a b c d) bools) bools) bools) all_inits.
Definition all_tcfg : list tcfg :=
  flat_map (fun a => flat_map (fun b => flat_map (fun c => flat_map (fun d => map (fun e => mkT a b c d e) bools) bools) bools) bools) bools.
Definition all_ucfg : list ucfg :=
  flat_map (fun a => flat_map (fun b => flat_map (fun c => map (fun d => mkU a b c d) bools) bools) bools) bools.

(* ---- boolean checks evaluated by vm_compute in the theorems --------------------------------------------- *)
Definition cell_eqb (x y : nat * cell) : bool :=
  Nat.eqb (fst x) (fst y) && Nat.eqb (ver (snd x)) (ver (snd y)) && Bool.eqb (canon (snd x)) (canon (snd y))
  && Bool.eqb (zeros (snd x)) (zeros (snd y))
  && match own (snd x), own (snd y) with OCaller, OCaller | OLib, OLib => true | _, _ => false end.
Definition view_eqb (a b : option ((nat * cell) * (nat * cell) * (nat * cell))) : bool :=
  match a, b with
  | Some (a1, a2, a3), Some (b1, b2, b3) => cell_eqb a1 b1 && cell_eqb a2 b2 && cell_eqb a3 b3
  | _, _ => false
  end.
Definition runo (p : list op) (s : option state) : option state := match s with Some s => run p s | None => None end.
Definition no_zeros (s : state) (m : nat) : bool := match graph_zeros s m with Some z => negb z | None => false end.

(* C08, per (facts, graph-stage valuation): run the graph stage once from the initial state, then every layout valuation
   from there: the three graph buffers keep location, version and flags, and hold no explicit zero at the end *)
Definition c08_ok (fx : fixes) (f : facts) (g : gcfg) (l : lcfg) : bool :=
  match run (graph_stage f fx 0 g) init_state with
  | Some s1 => match run (layout_stage f fx 0 g l) s1 with
               | Some s2 => view_eqb (graph_view s1 0) (graph_view s2 0) && no_zeros s2 0
               | None => false end
  | None => false
  end.
Definition c08_all (fx : fixes) (f : facts) (g : gcfg) : bool :=
  match run (graph_stage f fx 0 g) init_state with
  | Some s1 => forallb (fun l => match run (layout_stage f fx 0 g l) s1 with
                                 | Some s2 => view_eqb (graph_view s1 0) (graph_view s2 0) && no_zeros s2 0
                                 | None => false end) all_lcfg
  | None => false
  end.
(* graphs of updated / combined models: the layout stage inside update / the operators keeps them, no explicit zeros *)
Definition fit0 (f : facts) (fx : fixes) (m : nat) : list op :=
  fit_prog f fx m (mkG false true true MNamed false false false true TNone true) (mkL IString true false true).
Definition c08_update_ok (fx : fixes) (f : facts) (u : ucfg) : bool :=
  match runo (update_prog f fx 0 u) (run (fit0 f fx 0) init_state) with
  | Some s => no_zeros s 0 && match graph_canon s 0 with Some c => c | None => false end
  | None => false end.
Definition c08_combine_ok (fx : fixes) (f : facts) (k : okind) (w : bool) : bool :=
  match runo (combine_prog f fx k 0 1 2 w) (runo (fit0 f fx 1) (run (fit0 f fx 0) init_state)) with
  | Some s => no_zeros s 2 && match graph_canon s 2 with Some c => c | None => false end
  | None => false end.

(* C09: static safety of the programs; the fit analysis is split at the stage boundary like the run above *)
Definition safe_from (fr : option (list name)) (p : list op) : option (list name) :=
  match fr with Some fr => analyse_prog fr p | None => None end.
Definition sort_safe (g : gcfg) : bool := negb (g_sparse g && g_xconf g && negb (g_xsorted g)).
Definition fit_safe_all (fx : fixes) (m : nat) (f : facts) (g : gcfg) : bool :=
  implb (sort_safe g)
    match analyse_prog [] (graph_stage f fx m g) with
    | Some fr => forallb (fun l => match analyse_prog fr (layout_stage f fx m g l) with Some _ => true | None => false end) all_lcfg
    | None => false
    end.

(* model ids / attribute kinds of the attributes a program binds, and whether it binds a caller variable *)
Definition bound_models (p : list op) : list nat := flat_map (fun x => match x with Attr m _ => [m] | _ => [] end) (binds p).
Definition bound_attrs (p : list op) : list attr := flat_map (fun x => match x with Attr _ a => [a] | _ => [] end) (binds p).
Definition binds_caller (p : list op) : bool := existsb (fun x => match x with Caller _ => true | _ => false end) (binds p).

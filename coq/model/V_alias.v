(* Verdict functions for the C08 / C09 correspondence: the machine is run on the attribute valuation of a real call and its
   predictions (which buffers are shared, which changed, flags of graph_) are compared with what was observed; exact (bool / nat). *)
From Coq Require Import List Bool Arith ZArith.
From UV Require Import M_alias.
Import ListNotations.

(* did the buffer that x named in state s0 change its bytes (version) by state s ? *)
Definition bumped (s0 s : state) (x : name) : bool :=
  match lookup (env s0) x with
  | Some l => match cell_at s0 l, cell_at s l with
              | Some c0, Some c => negb (Nat.eqb (ver c0) (ver c))
              | _, _ => true end
  | None => false
  end.
(* any buffer existing in s0, other than those at the listed locations, with a changed version *)
Definition any_bumped (s0 s : state) (except : list nat) : bool :=
  existsb (fun l => negb (existsb (Nat.eqb l) except) &&
                    match cell_at s0 l, cell_at s l with
                    | Some c0, Some c => negb (Nat.eqb (ver c0) (ver c))
                    | _, _ => true end)
          (seq 0 (length (heap s0))).

Fixpoint first_diff (i : Z) (a b : list bool) : Z :=
  match a, b with
  | [], [] => (-1)%Z
  | x :: a', y :: b' => if Bool.eqb x y then first_diff (i + 1) a' b' else i
  | _, _ => 98%Z
  end.

(* ---- environment facts ------------------------------------------------------------------------------- *)
(* predictions: [csr.tocoo() shares; csr.tocoo(copy=True) shares; canonical flag of graph_ after an unsupervised fit, a categorical
   fit, a continuous-target fit, +, *, -, update] *)
Definition env_pred (f : facts) : option (list bool) :=
  let tocoo copy :=
    match run [Alloc (Tmp 0) true false; ToCoo (Tmp 1) (Tmp 0) copy] init_state with
    | Some s => Some (same_buffer s (Tmp 0) (Tmp 1)) | None => None end in
  let canon_after (p : list op) (m : nat) := match run p init_state with Some s => graph_canon s m | None => None end in
  let g t := mkG false true true MNamed false false false true t true in
  let l := mkL IString true false true in
  match tocoo (negb (f_tocoo_shares f)), tocoo true,
        canon_after (fit_prog f cur 0 (g TNone) l) 0, canon_after (fit_prog f cur 0 (g TCategorical) l) 0,
        canon_after (fit_prog f cur 0 (g TContinuous) l) 0,
        canon_after (fit0 f cur 0 ++ fit0 f cur 1 ++ combine_prog f cur OAdd 0 1 2 true) 2,
        canon_after (fit0 f cur 0 ++ fit0 f cur 1 ++ combine_prog f cur OMul 0 1 2 true) 2,
        canon_after (fit0 f cur 0 ++ fit0 f cur 1 ++ combine_prog f cur OSub 0 1 2 true) 2,
        canon_after (fit0 f cur 0 ++ update_prog f cur 0 (mkU true true true true)) 0 with
  | Some a, Some b, Some c, Some d, Some e, Some h, Some i, Some j, Some k => Some [a; b; c; d; e; h; i; j; k]
  | _, _, _, _, _, _, _, _, _ => None
  end.
Definition verdict_env (c : facts * list bool) : Z :=
  match env_pred (fst c) with Some p => first_diff 0 p (snd c) | None => (-2)%Z end.

(* ---- one fit ------------------------------------------------------------------------------------------- *)
(* predictions: [X, y, init, knn indices, knn dists changed;  X ~ _raw_data, idx ~ _knn_indices, dist ~ _knn_dists, init ~ embedding_ shared;
   graph_ canonical; graph_ holds explicit zeros; graph_ buffers changed by the layout stage] *)
Definition fit_states (f : facts) (g : gcfg) (l : lcfg) : option (state * state) :=
  match run (graph_stage f cur 0 g) init_state with
  | Some s1 => match run (layout_stage f cur 0 g l) s1 with Some s2 => Some (s1, s2) | None => None end
  | None => None
  end.
Definition fit_pred (f : facts) (g : gcfg) (l : lcfg) : option (list bool) :=
  match fit_states f g l with
  | Some (s1, s2) =>
      Some [bumped init_state s2 (Caller CX); bumped init_state s2 (Caller CY); bumped init_state s2 (Caller CInit);
            bumped init_state s2 (Caller CKIdx); bumped init_state s2 (Caller CKDist);
            same_buffer s2 (Caller CX) (Attr 0 RawData); same_buffer s2 (Caller CKIdx) (Attr 0 KnnIdx);
            same_buffer s2 (Caller CKDist) (Attr 0 KnnDist); same_buffer s2 (Caller CInit) (Attr 0 Embedding);
            match graph_canon s2 0 with Some b => b | None => false end;
            match graph_zeros s2 0 with Some b => b | None => true end;
            negb (view_eqb (graph_view s1 0) (graph_view s2 0))]
  | None => None
  end.
Definition verdict_fit (c : facts * gcfg * lcfg * list bool) : Z :=
  let '(f, g, l, obs) := c in
  match fit_pred f g l with Some p => first_diff 0 p obs | None => (-2)%Z end.

(* ---- operations on the fitted model 0 (helper model 1 for the operators, result model 2) --------------- *)
Inductive vop := VT (t : tcfg) | VI (conf : bool) | VC (k : okind) (w : bool) | VU (u : ucfg).
Definition vop_prog (f : facts) (v : vop) : list op :=
  match v with
  | VT t => transform_prog f cur 0 t
  | VI c => inverse_prog 0 c
  | VC k w => combine_prog f cur k 0 1 2 w
  | VU u => update_prog f cur 0 u
  end.
(* predictions per operation: [some buffer that existed before the call (model attributes of both operands, earlier results, the
   caller's fit arrays) changed; the array passed to the call changed; the returned array is the model's embedding_ buffer] *)
Definition vop_pred (f : facts) (v : vop) (s : state) : option (list bool * state) :=
  match run (vop_prog f v) s with
  | Some s' =>
      let lx := match lookup (env s) (Caller CXnew) with Some l => [l] | None => [] end in
      Some ([any_bumped s s' lx; bumped s s' (Caller CXnew);
             match v with VT _ => same_buffer s' tRes (Attr 0 Embedding) | _ => false end], s')
  | None => None
  end.
Fixpoint verdict_ops (f : facts) (i : Z) (ops : list (vop * list bool)) (s : state) : Z :=
  match ops with
  | [] => (-1)%Z
  | (v, obs) :: r =>
      match vop_pred f v s with
      | Some (p, s') => let d := first_diff 0 p obs in
                        if (d =? -1)%Z then verdict_ops f (i + 1) r s' else (100 * i + d)%Z
      | None => (100 * i + 99)%Z
      end
  end.
(* code: -1 agree; d in 0..11 first differing fit prediction; 100 * k + d: d-th prediction of the k-th operation; 99 = machine stuck *)
Definition verdict_case (c : facts * gcfg * lcfg * list bool * list (vop * list bool)) : Z :=
  let '(f, g, l, obs, ops) := c in
  match fit_states f g l, fit_pred f g l with
  | Some (_, s2), Some p =>
      let d := first_diff 0 p obs in
      if (d =? -1)%Z
      then match run (fit0 f cur 1) s2 with
           | Some s3 => verdict_ops f 1 ops s3
           | None => 99%Z end
      else d
  | _, _ => 99%Z
  end.

(* ---- histories of read-only operations over a pool of k models fitted from conforming dense data -------- *)
Fixpoint pool_prog (f : facts) (k : nat) : list op :=
  match k with O => [] | S k' => pool_prog f k' ++ fit0 f cur k' end.
(* per operation the observation is: did any buffer that existed before the call (any model's, any earlier result's, the caller's) change *)
Fixpoint verdict_hist (f : facts) (i : Z) (ops : list (rop * bool)) (s : state) : Z :=
  match ops with
  | [] => (-1)%Z
  | (o, changed) :: r =>
      match run (rop_prog f cur o) s with
      | Some s' => if Bool.eqb (any_bumped s s' []) changed then verdict_hist f (i + 1) r s' else i
      | None => (1000 + i)%Z
      end
  end.
Definition verdict_history (c : facts * nat * list (rop * bool)) : Z :=
  let '(f, k, ops) := c in
  match run (pool_prog f k) init_state with
  | Some s => verdict_hist f 0 ops s
  | None => 999%Z
  end.

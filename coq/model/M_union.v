(* C02: assembly of the fuzzy graph from the directed memberships (umap_.py:584-603). *)
From Coq Require Import List ZArith Bool.
From UV Require Import Num.
Import ListNotations NumNotations.

Section Union.
Context (N : Num).
Local Open Scope num_scope.
Notation "0" := (zero N) : num_scope.
Notation "1" := (one N) : num_scope.

(* r * (a + b - a*b) + (1 - r) * (a*b) : lines 598-601 *)
Definition mix (r a b : N) : N := r * (a + b - a * b) + (1 - r) * (a * b).

Definition coo := list (nat * nat * N).

(* value of entry (i,j) of a COO matrix (duplicates are summed, absent = 0) *)
Fixpoint lookup (A : coo) (i j : nat) : N :=
  match A with
  | [] => 0
  | (i', j', v) :: A' => if Nat.eqb i i' && Nat.eqb j j' then v + lookup A' i j else lookup A' i j
  end.

Definition graphf (r : N) (A : nat -> nat -> N) (i j : nat) : N := mix r (A i j) (A j i).
Definition graph (r : N) (A : coo) : nat -> nat -> N := graphf r (lookup A).

(* rows of (neighbour index, strength) -> COO; index -1 entries were already skipped *)
Fixpoint coo_of_rows (i : nat) (rows : list (list (Z * N))) : coo :=
  match rows with
  | [] => []
  | row :: rest => map (fun e => (i, Z.to_nat (fst e), snd e)) row ++ coo_of_rows (S i) rest
  end.

End Union.

(* C01: smooth_knn_dist (umap_.py:143-253) and compute_membership_strengths (351-439).
   Executable definitions only.  A kNN row is given as its finite part [row] (ascending, column 0
   first) plus the number [ninf] of trailing +inf ("disconnected") entries. *)
From Coq Require Import List ZArith Bool.
From UV Require Import Num.
Import ListNotations NumNotations.

Section Smooth.
Context (N : Num).
Local Open Scope num_scope.
Notation "0" := (zero N) : num_scope.
Notation "1" := (one N) : num_scope.

(* source constants (passed in by the harness from the current source text) *)
Variable tol : N.       (* SMOOTH_K_TOLERANCE *)
Variable kscale : N.    (* MIN_K_DIST_SCALE *)

Definition two : N := 1 + 1.

(* membership strength of one neighbour: lines 428-431 *)
Definition mem (d rho sigma : N) : N :=
  if ((d - rho) <=? 0) || (sigma =? 0) then 1 else nexp N (- ((d - rho) / sigma)).

Definition nonzero (row : list N) : list N := filter (fun d => 0 <? d) row.

Definition nmax (a b : N) : N := if a <=? b then b else a.
Definition list_max (l : list N) : N := fold_left nmax l 0.

(* non_zero_dists.shape[0] >= local_connectivity, with lc = index + interp, 0 <= interp < 1 *)
Definition ge_lc (cnt index : nat) (interp : N) : bool :=
  Nat.ltb index cnt || (Nat.eqb index cnt && (interp <=? 0)).

(* lines 204-217 *)
Definition rho_of (row : list N) (ninf index : nat) (interp : N) : N :=
  let nz := nonzero row in
  let cnt := (length nz + ninf)%nat in
  if ge_lc cnt index interp then
    match index with
    | O => interp * nth 0 nz 0
    | S i => let base := nth i nz 0 in
             if tol <? interp then base + interp * (nth (S i) nz 0 - base) else base
    end
  else if Nat.ltb 0 cnt then list_max nz
  else 0.

Definition psum_term (rho mid d : N) : N :=
  if 0 <? (d - rho) then nexp N (- ((d - rho) / mid)) else 1.

Fixpoint nsum (l : list N) : N := match l with [] => 0 | x :: r => x + nsum r end.

(* lines 221-227: column 0 is skipped; +inf entries contribute exp(-inf) = 0 *)
Definition psum (row : list N) (rho mid : N) : N :=
  nsum (map (psum_term rho mid) (tl row)).

(* lines 219-240; returns (mid, stopped by the tolerance test?) *)
Fixpoint bisect (n : nat) (f : N -> N) (target lo : N) (hi : option N) (mid : N) : N * bool :=
  match n with
  | O => (mid, false)
  | S n' =>
    let ps := f mid in
    if nabs N (ps - target) <? tol then (mid, true)
    else if target <? ps then bisect n' f target lo (Some mid) ((lo + mid) / two)
    else match hi with
         | None => bisect n' f target mid None (mid * two)
         | Some h => bisect n' f target mid hi ((mid + h) / two)
         end
  end.

Definition mean (l : list N) : N := nsum l / of_Z N (Z.of_nat (length l)).

(* lines 244-251 (after the repair: the means are taken over the finite entries) *)
Definition floor_sigma (s rho mean_row mean_all : N) : N :=
  let m := if 0 <? rho then mean_row else mean_all in
  if s <? kscale * m then kscale * m else s.

Definition smooth_row (n_iter : nat) (target mean_all : N) (row : list N) (ninf index : nat) (interp : N)
  : N * N * bool :=
  let rho := rho_of row ninf index interp in
  let '(s, brk) := bisect n_iter (psum row rho) target 0 None 1 in
  (floor_sigma s rho (mean row) mean_all, rho, brk).

Definition smooth_knn (n_iter : nat) (target : N) (rows : list (list N * nat)) (index : nat) (interp : N)
  : list (N * N * bool) :=
  let mean_all := mean (concat (map fst rows)) in
  map (fun r => smooth_row n_iter target mean_all (fst r) (snd r) index interp) rows.

(* compute_membership_strengths for row i: entries (neighbour index, distance); index -1 skipped *)
Definition memberships (i : Z) (sigma rho : N) (row : list (Z * N)) : list (Z * N) :=
  flat_map (fun e => let '(j, d) := e in
     if (j =? -1)%Z then [] else
     [(j, if (j =? i)%Z then 0 else mem d rho sigma)]) row.

End Smooth.

(* C17: densMAP — layouts.py:102-152 (density term of the attractive step), 189-219 (per-epoch density
   statistics), 371-399 (when the term is active); umap_.py:1156-1186, 1273-1299 (local radii). *)
From Coq Require Import List ZArith Bool.
From UV Require Import Num M_sgd.
Import ListNotations NumNotations.

Section Dens.
Context (N : Num).
Local Open Scope num_scope.
Notation "0" := (zero N) : num_scope.
Notation "1" := (one N) : num_scope.

(* layouts.py:372-376 *)
Definition densmap_flag (densmap : bool) (lambda frac : N) (n nepochs : Z) : bool :=
  densmap && (0 <? lambda) && ((1 - frac) <? (of_Z N (n + 1) / of_Z N nepochs)).

Record dens_ctx := mkDens {
  d_phi_sum : list N; d_re_sum : list N; d_R : list N; d_mu : list N;
  d_re_cov : N; d_re_std : N; d_re_mean : N; d_lambda : N; d_mu_tot : N; d_nv : N
}.

(* layouts.py:103-134 *)
Definition grad_cor_coeff (a b : N) (cx : dens_ctx) (i j k : nat) (d2 : N) : N :=
  let phi := 1 / (1 + a * npow N d2 b) in
  let dphi := a * b * npow N d2 (b - 1) / (1 + a * npow N d2 b) in
  let q_jk := phi / nth k (d_phi_sum cx) 0 in
  let q_kj := phi / nth j (d_phi_sum cx) 0 in
  let drk := q_jk * ((1 - b * (1 - phi)) / nexp N (nth k (d_re_sum cx) 0) + dphi) in
  let drj := q_kj * ((1 - b * (1 - phi)) / nexp N (nth j (d_re_sum cx) 0) + dphi) in
  let sd2 := d_re_std cx * d_re_std cx in
  let wk := nth k (d_R cx) 0 - d_re_cov cx * (nth k (d_re_sum cx) 0 - d_re_mean cx) / sd2 in
  let wj := nth j (d_R cx) 0 - d_re_cov cx * (nth j (d_re_sum cx) 0 - d_re_mean cx) / sd2 in
  d_lambda cx * d_mu_tot cx * (wk * drk + wj * drj) / (nth i (d_mu cx) 0 * d_re_std cx) / d_nv cx.

(* attractive move with the density term: grad_d = clip(gc*(c-o)) + clip(2*gcc*(c-o)) *)
Definition attract_dens (flag : bool) (cx : dens_ctx) (a b alpha : N) (move_other : bool) (e : emb N) (i j k : nat) : emb N :=
  if flag then
    let cur := nth j (eH N e) [] in
    let oth := get_tail N e k in
    let d2 := rdist N cur oth in
    let gcc := grad_cor_coeff a b cx i j k d2 in
    let gc := attr_coeff N a b d2 in
    let g := map2 N (fun c o => clip N (gc * (c - o)) + clip N (c2 N * gcc * (c - o))) cur oth in
    let e1 := set_head N e j (map2 N (fun c gd => c + gd * alpha) cur g) in
    if move_other then set_tail N e1 k (map2 N (fun o gd => o + (- gd) * alpha) (get_tail N e1 k) g) else e1
  else attract N a b alpha move_other e j k.

Definition edge_step_dens (flag : bool) (cx : dens_ctx) (a b gamma alpha : N) (move_other : bool) (nv : Z) (n : N)
                          (s : sgd_state N) (i : nat) (ed : edge N) : sgd_state N :=
  let nxt := nth i (s_next N s) 0 in
  if nxt <=? n then
    let j := e_head N ed in
    let e1 := attract_dens flag cx a b alpha move_other (s_emb N s) i j (e_tail N ed) in
    let nng := nth i (s_nneg N s) 0 in
    let cnt := ntrunc N ((n - nng) / e_epns N ed) in
    let '(e2, st') := neg_loop N (Z.to_nat cnt) a b gamma alpha nv e1 j (nth j (s_rng N s) (0, 0, 0)%Z) in
    mkSt N e2 (upd (s_next N s) i (nxt + e_eps N ed))
              (upd (s_nneg N s) i (nng + of_Z N cnt * e_epns N ed))
              (upd (s_rng N s) j st')
  else s.

Fixpoint edges_from_dens (flag : bool) (cx : dens_ctx) (a b gamma alpha : N) (move_other : bool) (nv : Z) (n : N)
                         (i : nat) (es : list (edge N)) (s : sgd_state N) : sgd_state N :=
  match es with
  | [] => s
  | ed :: r => edges_from_dens flag cx a b gamma alpha move_other nv n (S i) r
                 (edge_step_dens flag cx a b gamma alpha move_other nv n s i ed)
  end.

Definition epoch_dens flag cx a b gamma alpha move_other nv n es s :=
  edges_from_dens flag cx a b gamma alpha move_other nv n O es s.

(* per-epoch statistics: layouts.py:199-219 (accumulators as lists) *)
Definition acc2 (l : list N) (j k : nat) (v : N) : list N :=
  let l1 := upd l j (nth j l 0 + v) in upd l1 k (nth k l1 0 + v).

Fixpoint dens_acc (a b : N) (e : emb N) (es : list (edge N)) (re phi : list N) : list N * list N :=
  match es with
  | [] => (re, phi)
  | ed :: r =>
    let j := e_head N ed in let k := e_tail N ed in
    let d2 := rdist N (nth j (eH N e) []) (get_tail N e k) in
    let ph := 1 / (1 + a * npow N d2 b) in
    dens_acc a b e r (acc2 re j k (ph * d2)) (acc2 phi j k ph)
  end.

Definition eps8 : N := 1 / of_Z N 100000000.

Definition dens_init (a b : N) (e : emb N) (es : list (edge N)) (nvert : nat) : list N * list N :=
  let z := repeat 0 nvert in
  let '(re, phi) := dens_acc a b e es z z in
  (map2 N (fun r p => nln N (eps8 + r / p)) re phi, phi).

Definition nsum_l (l : list N) : N := fold_right (fun x s => x + s) 0 l.
Definition lmean (l : list N) : N := nsum_l l / of_Z N (Z.of_nat (length l)).
Definition lvar (l : list N) : N := let m := lmean l in lmean (map (fun x => (x - m) * (x - m)) l).
Definition ldot (x y : list N) : N := nsum_l (map2 N (fun a b => a * b) x y).

(* layouts.py:378-399: the context of one epoch (only computed when the flag is set) *)
Definition dens_ctx_of (a b lambda var_shift mu_tot : N) (R mu : list N) (e : emb N) (es : list (edge N)) (nvert : nat) : dens_ctx :=
  let '(re, phi) := dens_init a b e es nvert in
  mkDens phi re R mu
         (ldot re R / (of_Z N (Z.of_nat nvert) - 1))
         (nsqrt N (lvar re + var_shift))
         (lmean re) lambda mu_tot (of_Z N (Z.of_nat nvert)).

Record dens_par := mkDP { p_densmap : bool; p_lambda : N; p_frac : N; p_var_shift : N; p_mu_tot : N; p_R : list N; p_mu : list N }.

Definition dummy_ctx : dens_ctx := mkDens [] [] [] [] 0 0 0 0 0 0.

Fixpoint run_dens_from (dp : dens_par) (a b gamma alpha0 : N) (move_other : bool) (nv : Z) (nepochs : Z) (es : list (edge N))
                       (fuel : nat) (n : Z) (s : sgd_state N) : sgd_state N :=
  match fuel with
  | O => s
  | S f =>
    let flag := densmap_flag (p_densmap dp) (p_lambda dp) (p_frac dp) n nepochs in
    let cx := if flag then dens_ctx_of a b (p_lambda dp) (p_var_shift dp) (p_mu_tot dp) (p_R dp) (p_mu dp) (s_emb N s) es (Z.to_nat nv)
              else dummy_ctx in
    run_dens_from dp a b gamma alpha0 move_other nv nepochs es f (n + 1)%Z
      (epoch_dens flag cx a b gamma (alpha_of N alpha0 nepochs n) move_other nv (of_Z N n) es s)
  end.

Definition run_dens dp a b gamma alpha0 move_other nv nepochs es s :=
  run_dens_from dp a b gamma alpha0 move_other nv nepochs es (Z.to_nat nepochs) 0%Z s.

(* ---- local radii: umap_.py:1162-1177 (original space, D = squared graph distance) and 1279-1297 --------- *)
Record redge := mkRE { r_head : nat; r_tail : nat; r_mu : N; r_D : N }.

Fixpoint radii_acc (es : list redge) (ro ms : list N) : list N * list N :=
  match es with
  | [] => (ro, ms)
  | e :: r => radii_acc r (acc2 ro (r_head e) (r_tail e) (r_mu e * r_D e)) (acc2 ms (r_head e) (r_tail e) (r_mu e))
  end.

Definition radii (nvert : nat) (es : list redge) : list N :=
  let z := repeat 0 nvert in
  let '(ro, ms) := radii_acc es z z in
  map2 N (fun r m => nln N (eps8 + r / m)) ro ms.

(* specification of the two accumulated sums at vertex v *)
Definition contrib (v : nat) (e : redge) (x : N) : N :=
  (if Nat.eqb (r_head e) v then x else 0) + (if Nat.eqb (r_tail e) v then x else 0).
Fixpoint wdsum (v : nat) (es : list redge) : N :=
  match es with [] => 0 | e :: r => contrib v e (r_mu e * r_D e) + wdsum v r end.
Fixpoint wsum (v : nat) (es : list redge) : N :=
  match es with [] => 0 | e :: r => contrib v e (r_mu e) + wsum v r end.

End Dens.

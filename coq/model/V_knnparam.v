(* Verdict functions for the C20 correspondence: decision / warnings / branch (exact, Z) and graphs (binary64, tolerance). *)
From Coq Require Import List ZArith Bool PrimFloat.
From UV Require Import Num FloatFns FNum M_knnparam.
Import ListNotations.
Local Open Scope Z_scope.

Definition err_code (e : err) : Z :=
  match e with E_unique => 0 | E_indices_not_array => 1 | E_dists_not_array => 2 | E_shape_mismatch => 3 end.
Definition warn_code (w : warnk) : Z :=
  match w with W_no_search_index => 0 | W_few_columns => 1 | W_wrong_rows => 2 end.

(* what the harness observed:
   kind 0 = no tables afterwards and no table warning, 1 = ValueError, 2 = tables dropped, 3 = tables kept;
   a = error code | kept columns ; b = force_approximation_algorithm afterwards (1/0) ;
   warns = codes in emission order ; small = _small_data (1/0, -1 raised) ; used = _knn_dists.shape[1] (-1 if unset) *)
Record obs := mkObs { o_kind : Z; o_a : Z; o_b : Z; o_warns : list Z; o_small : Z; o_used : Z }.

Definition bz (b : bool) : Z := if b then 1 else 0.

Fixpoint zlist_eqb (a b : list Z) : bool :=
  match a, b with
  | [], [] => true
  | x :: a', y :: b' => (x =? y) && zlist_eqb a' b'
  | _, _ => false
  end.

Definition src_cols (s : source) : Z :=
  match s with Supplied c => c | OwnExact _ => -1 | OwnApprox kk => kk | OwnSparse kk => kk end.

(* -1 agree; 1 decision kind; 2 error class; 3 warnings; 4 kept columns; 5 force afterwards; 6 branch; 7 columns used *)
Definition verdict_decision (thr : Z) (c : knn_input * obs) : Z :=
  let '(x, o) := c in
  let d := validate thr x in
  let kind := match d with Absent => 0 | Error _ => 1 | Ignore _ => 2 | Use _ _ => 3 end in
  if negb (kind =? o_kind o) then 1 else
  if negb (zlist_eqb (map warn_code (warnings thr x)) (o_warns o)) then 3 else
  match d with
  | Error e => if err_code e =? o_a o then -1 else 2
  | Use c f => if negb (c =? o_a o) then 4 else if negb (bz f =? o_b o) then 5 else
               match fit_plan thr false x with
               | Some p => if negb (bz (match p_branch p with B_small_exact => true | _ => false end) =? o_small o) then 6
                           else if negb (src_cols (p_src p) =? o_used o) then 7 else -1
               | None => 6
               end
  | _ => if negb (bz (force x) =? o_b o) then 5 else
         match fit_plan thr false x with
         | Some p => if negb (bz (match p_branch p with B_small_exact => true | _ => false end) =? o_small o) then 6
                     else if negb (src_cols (p_src p) =? o_used o) then 7 else -1
         | None => 6
         end
  end.

(* ---- graphs: canonical COO lists (sorted by row, column) ------------------------------------------------- *)
Definition coo := list (Z * Z * float).

(* -1 equal within atol on the same support; 1 support differs; 2 a value differs *)
Fixpoint coo_cmp (atol : float) (a b : coo) : Z :=
  match a, b with
  | [], [] => -1
  | (i, j, v) :: a', (i', j', v') :: b' =>
      if (i =? i') && (j =? j') then (if f_close 0 atol v v' then coo_cmp atol a' b' else 2) else 1
  | _, _ => 1
  end.

(* case: input, was the table exact?, graph of the fit, graph of the fit given only the first k columns,
   graph of the ordinary fit (no tables, same force), graph of the ordinary exact fit (no tables, force False).
   The model's plan says which reference the graph must equal.
   -1 agree; 10+ vs first-k fit; 20+ vs ordinary fit; 30+ exact tables vs ordinary exact fit; 40 fit raised per model *)
Definition verdict_graph (thr : Z) (atol atol_exact : float)
    (c : knn_input * bool * coo * coo * coo * coo) : Z :=
  let '(x, exact, g, g_firstk, g_ord, g_exact) := c in
  match fit_plan thr false x with
  | None => 40
  | Some p =>
    match p_src p with
    | Supplied _ =>
        let v := coo_cmp atol g g_firstk in
        if negb (v =? -1) then 10 + v
        else if exact && (k x <? n x) then
          (let v2 := coo_cmp atol_exact g g_exact in if v2 =? -1 then -1 else 30 + v2)
        else -1
    | _ => let v := coo_cmp atol g g_ord in if v =? -1 then -1 else 20 + v
    end
  end.

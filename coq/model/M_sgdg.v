(* C07 (continued): the generic-output-metric optimiser (layouts.py:446-519) and the parametric variant's
   edge replication (parametric_umap.py:562-613, 880-889). *)
From Coq Require Import List ZArith Bool.
From UV Require Import Num M_sgd.
Import ListNotations NumNotations.

Section Generic.
Context (N : Num).
Local Open Scope num_scope.
Notation "0" := (zero N) : num_scope.
Notation "1" := (one N) : num_scope.

Definition c1e6 : N := 1 / of_Z N 1000000.

(* an output metric returns (distance, gradient w.r.t. its first argument) *)
Definition ometric := list N -> list N -> N * list N.

(* distances.py:35-48 *)
Definition euclidean_grad : ometric := fun x y =>
  let d := nsqrt N (rdist N x y) in
  (d, map2 N (fun xi yi => (xi - yi) / (c1e6 + d)) x y).

(* lines 480-484 / 508-515 *)
Definition w_low (a b d : N) : N := if 0 <? d then npow N (1 + a * npow N d (c2 N * b)) (neg N 1) else 1.
Definition gattr_coeff (a b d : N) : N := c2 N * b * (w_low a b d - 1) / (d + c1e6).
Definition grep_coeff (a b gamma d : N) : N := gamma * c2 N * b * w_low a b d / (d + c1e6).

Definition gattract (om : ometric) (a b alpha : N) (move_other : bool) (e : emb N) (j k : nat) : emb N :=
  let cur := nth j (eH N e) [] in
  let oth := get_tail N e k in
  let '(d, g) := om cur oth in
  let '(_, rg) := om oth cur in
  let gc := gattr_coeff a b d in
  let e1 := set_head N e j (map2 N (fun c gd => c + clip N (gc * gd) * alpha) cur g) in
  if move_other then set_tail N e1 k (map2 N (fun o gd => o + clip N (gc * gd) * alpha) (get_tail N e1 k) rg) else e1.

Definition grepel (om : ometric) (a b gamma alpha : N) (e : emb N) (j k : nat) : emb N :=
  let cur := nth j (eH N e) [] in
  let oth := get_tail N e k in
  let '(d, g) := om cur oth in
  if (0 <? d) || negb (Nat.eqb j k) then
    set_head N e j (map2 N (fun c gd => c + clip N (grep_coeff a b gamma d * gd) * alpha) cur g)
  else e.   (* d = 0 and j = k: continue *)

Fixpoint gneg_loop (om : ometric) (fuel : nat) (a b gamma alpha : N) (nv : Z) (e : emb N) (j : nat) (st : rng3) : emb N * rng3 :=
  match fuel with
  | O => (e, st)
  | S f =>
    let '(st', r) := tau_rand_int st in
    gneg_loop om f a b gamma alpha nv (grepel om a b gamma alpha e j (Z.to_nat (r mod nv))) j st'
  end.

Definition gedge_step (om : ometric) (a b gamma alpha : N) (move_other : bool) (nv : Z) (n : N)
                      (s : sgd_state N) (i : nat) (ed : edge N) : sgd_state N :=
  let nxt := nth i (s_next N s) 0 in
  if nxt <=? n then
    let j := e_head N ed in
    let e1 := gattract om a b alpha move_other (s_emb N s) j (e_tail N ed) in
    let nng := nth i (s_nneg N s) 0 in
    let cnt := ntrunc N ((n - nng) / e_epns N ed) in
    let '(e2, st') := gneg_loop om (Z.to_nat cnt) a b gamma alpha nv e1 j (nth j (s_rng N s) (0, 0, 0)%Z) in
    mkSt N e2 (upd (s_next N s) i (nxt + e_eps N ed))
              (upd (s_nneg N s) i (nng + of_Z N cnt * e_epns N ed))
              (upd (s_rng N s) j st')
  else s.

Fixpoint gedges_from (om : ometric) (a b gamma alpha : N) (move_other : bool) (nv : Z) (n : N)
                     (i : nat) (es : list (edge N)) (s : sgd_state N) : sgd_state N :=
  match es with
  | [] => s
  | ed :: r => gedges_from om a b gamma alpha move_other nv n (S i) r (gedge_step om a b gamma alpha move_other nv n s i ed)
  end.

Definition gepoch om a b gamma alpha move_other nv n es s := gedges_from om a b gamma alpha move_other nv n O es s.

(* parametric variant: each kept edge is replicated int(n_epochs * w) times *)
Definition replication (nepochs w : N) : Z := ntrunc N (nepochs * w).
End Generic.

(* Verdict functions (binary64 instance) for the C01 correspondence. *)
From Coq Require Import List ZArith Bool PrimFloat.
From UV Require Import Num FloatFns FNum M_smooth.
Import ListNotations.
Open Scope float_scope.

(* one row as the implementation saw it and what it returned *)
Record row_obs := mkRow {
  r_row  : list float;        (* finite part of the distance row (as float32 values), ascending *)
  r_ninf : nat;               (* trailing +inf entries *)
  r_self : Z;                 (* the sample's own index *)
  r_idx  : list Z;            (* neighbour indices of the finite part *)
  r_sigma : float;  r_rho : float;     (* smooth_knn_dist output *)
  r_vals : list float;        (* compute_membership_strengths values for the finite part *)
  r_skip : bool               (* rho selected from an infinite entry: outside the model's domain *)
}.

Fixpoint all2 (f : float -> float -> bool) (a b : list float) : bool :=
  match a, b with
  | [], [] => true
  | x :: a', y :: b' => f x y && all2 f a' b'
  | _, _ => false
  end.

Definition check_row (tol kscale target mean_all : float) (n_iter index : nat) (interp : float)
                     (satol : float) (o : row_obs) : Z :=
  if r_skip o then 0%Z else
  let '(sig_m, rho_m, brk) := smooth_row FNum tol kscale n_iter target mean_all (r_row o) (r_ninf o) index interp in
  if negb (f_close 1e-5 1e-30 rho_m (r_rho o)) then 1%Z else
  if negb (f_finite (r_sigma o) && (0 <? r_sigma o)) then 2%Z else
  let mvals := map snd (memberships FNum (r_self o) sig_m rho_m (combine (r_idx o) (r_row o))) in
  if negb (all2 (f_close 0 satol) mvals (r_vals o)) then 3%Z else
  let fl := kscale * (if 0 <? r_rho o then mean FNum (r_row o) else mean_all) in
  if r_sigma o <? fl * 0.9999 then 4%Z else 0%Z.

Definition verdict_C01 (tol kscale : float) (n_iter : nat) (satol : float)
   (c : float * nat * float * list row_obs) : Z :=
  let '(target, index, interp, rows) := c in
  let mean_all := mean FNum (concat (map r_row rows)) in
  let fix go (i : Z) (rs : list row_obs) : Z :=
    match rs with
    | [] => (-1)%Z
    | o :: rs' => let v := check_row tol kscale target mean_all n_iter index interp satol o in
                  if (v =? 0)%Z then go (i + 1)%Z rs' else (i * 10 + v)%Z
    end in
  go 0%Z rows.

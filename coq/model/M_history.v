(* C10: the call-history state machine of a fitted UMAP model.
   umap_.py: fit 2857 (_input_hash), transform 2960-3200 (shortcut 2988-2999), inverse_transform
   3202-3360, update 3362-3590.  Executable definitions only.

   The abstract state tracks what the shape / shortcut / repeatability behaviour of those methods
   depends on: the size of every version of the training set (a new version is created by each
   update), the fingerprint the shortcut is keyed on (_input_hash), the mode, whether random_state
   is set.  Data sets are identified by tags: [DTrain v] = the training data as it was at version
   v, [DNew t] = any other data set (distinct tags = distinct contents, the harness guarantees it).

   Two facts about the text of update() are parameters of the model ([code]); the harness reads them
   from the current source on every run:
     refresh_key = update() assigns self._input_hash after replacing the training data,
     graph_guard = update() refuses transform_mode != "embedding" before touching the model,
     stack_in_order = update() of an approximate-neighbour model stacks _raw_data itself (sample order)
                      instead of adopting the search index's copy, which pynndescent keeps in tree order. *)
From Coq Require Import List Arith Bool.
Import ListNotations.

Inductive mode := Embedding | GraphMode.
Inductive dtag :=
  | DTrain (v : nat)      (* the training data of version v, rows in sample order *)
  | DNew (t : nat)        (* other data *)
  | DPerm (v : nat).      (* the index's row-permuted copy of version v (no caller can pass it) *)

Definition dtag_eqb (a b : dtag) : bool :=
  match a, b with
  | DTrain x, DTrain y => Nat.eqb x y
  | DNew x, DNew y => Nat.eqb x y
  | DPerm x, DPerm y => Nat.eqb x y
  | _, _ => false
  end.

(* what an output is, up to bit-identity *)
Inductive otag :=
  | OEmb (v : nat)                                   (* the stored embedding_ (graph_ in graph mode) of version v *)
  | OComp (v : nat) (d : dtag) (rows nonce : nat)    (* a freshly computed transform of data d against version v *)
  | OInv (v : nat) (rows nonce : nat)
  | ONone.

Inductive err :=
  | NoErr
  | ErrValue      (* ValueError: a documented refusal (empty input, unsupported mode, single-sample model) *)
  | ErrOther      (* any other exception *)
  | ErrInvalidOp. (* the op refers to a training-set version that does not exist (never generated) *)

Record code := mkCode { refresh_key : bool; graph_guard : bool; stack_in_order : bool }.

Record state := mkState {
  n_train : nat;            (* _raw_data.shape[0] *)
  olds : list nat;          (* sizes of the earlier versions of the training set, oldest first *)
  n_features : nat;
  n_components : nat;
  key : dtag;               (* the data whose hash is stored in _input_hash *)
  md : mode;
  seeded : bool;            (* random_state is not None *)
  approx : bool;            (* not _small_data: neighbours come from the NN-descent index *)
  clock : nat;              (* number of calls so far (only feeds the nonce of unseeded outputs) *)
  cd : code
}.

Record out := mkOut { o_err : err; o_rows : nat; o_cols : nat; o_short : bool; o_tag : otag }.

Inductive op :=
  | TransformTrain                      (* transform(current training data) *)
  | TransformOldTrain (i : nat)         (* transform(training data as it was at version i) *)
  | TransformNew (m : nat) (t : nat)    (* transform(m rows of other data, tag t) *)
  | Inverse (m : nat)                   (* inverse_transform(m points) *)
  | Update (m : nat).                   (* update(m further rows) *)

Definition version (s : state) : nat := length (olds s).
Definition cur_tag (s : state) : dtag := DTrain (version s).
(* columns of a transform result: n_components, or the number of training samples in graph mode *)
Definition width (s : state) : nat :=
  match md s with Embedding => n_components s | GraphMode => n_train s end.
Definition nonce (s : state) : nat := if seeded s then 0 else S (clock s).

(* the data a transform op passes: (rows, tag) *)
Definition input_of (s : state) (o : op) : option (nat * dtag) :=
  match o with
  | TransformTrain => Some (n_train s, cur_tag s)
  | TransformOldTrain i =>
      if Nat.eqb i (version s) then Some (n_train s, cur_tag s)
      else match nth_error (olds s) i with Some r => Some (r, DTrain i) | None => None end
  | TransformNew m t => Some (m, DNew t)
  | _ => None
  end.

Definition err_out (e : err) : out := mkOut e 0 0 false ONone.

(* transform, lines 2975-3200: single-sample refusal, check_array (rejects 0 rows), the hash
   shortcut (returns the *stored* embedding_/graph_, whatever the input was), else one output row
   per input row *)
Definition transform (s : state) (rows : nat) (t : dtag) : out :=
  if Nat.eqb (n_train s) 1 then err_out ErrValue
  else if Nat.eqb rows 0 then err_out ErrValue
  else if dtag_eqb t (key s) then mkOut NoErr (n_train s) (width s) true (OEmb (version s))
  else mkOut NoErr rows (width s) false (OComp (version s) t rows (nonce s)).

Definition tick (s : state) : state :=
  mkState (n_train s) (olds s) (n_features s) (n_components s) (key s) (md s) (seeded s) (approx s) (S (clock s)) (cd s).

(* what _raw_data holds after an update: the stacked data, or (3523) the index's reordered copy *)
Definition stored_tag (s : state) (v : nat) : dtag :=
  if approx s && negb (stack_in_order (cd s)) then DPerm v else DTrain v.

(* the training data are replaced by the stacked data: a new version *)
Definition grow (s : state) (m : nat) (refresh : bool) : state :=
  mkState (n_train s + m) (olds s ++ [n_train s]) (n_features s) (n_components s)
          (if refresh then stored_tag s (S (version s)) else key s) (md s) (seeded s) (approx s) (clock s) (cd s).

Definition step (s : state) (o : op) : state * out :=
  let s' := tick s in
  match o with
  | TransformTrain | TransformOldTrain _ | TransformNew _ _ =>
      match input_of s o with
      | None => (s', err_out ErrInvalidOp)
      | Some (r, t) => (s', transform s r t)
      end
  | Inverse m =>
      match md s with
      | GraphMode => (s', err_out ErrValue)                    (* 3232-3235 *)
      | Embedding =>
          if Nat.eqb m 0 then (s', err_out ErrValue)           (* check_array *)
          else (s', mkOut NoErr m (n_features s) false (OInv (version s) m (nonce s)))
      end
  | Update m =>
      if Nat.eqb m 0 then (s', err_out ErrValue)               (* check_array, before anything is touched *)
      else match md s with
      | GraphMode =>
          if graph_guard (cd s) then (s', err_out ErrValue)
          else (* _raw_data and graph_ are replaced, then `self.embedding_` does not exist: AttributeError;
                  the end of update() is never reached, so the key is not refreshed *)
               (grow s' m false, err_out ErrOther)
      | Embedding =>
          let s2 := grow s' m (refresh_key (cd s)) in
          (s2, mkOut NoErr (n_train s2) (n_components s2) false ONone)   (* shape of the new embedding_ *)
      end
  end.

(* the trace of a history: (state before the call, call, result) *)
Fixpoint run (s : state) (ops : list op) : list (state * op * out) :=
  match ops with
  | [] => []
  | o :: r => (s, o, snd (step s o)) :: run (fst (step s o)) r
  end.

Definition final (s : state) (ops : list op) : state := fold_left (fun s o => fst (step s o)) ops s.

Definition is_transform (o : op) : bool :=
  match o with TransformTrain | TransformOldTrain _ | TransformNew _ _ => true | _ => false end.
Definition readonly (o : op) : bool := match o with Update _ => false | _ => true end.

(* a freshly fitted model *)
Definition fresh (n f c : nat) (m : mode) (sd ap : bool) (k : code) : state :=
  mkState n [] f c (DTrain 0) m sd ap 0 k.

(* C03: from a matrix of pairwise distances to the fuzzy graph.
   kNN extraction (umap_.py:312-324 nearest_neighbors, metric "precomputed"; utils.py:14-37
   fast_knn_indices = first k entries of argsort of each row), then the C01 model (smooth_knn_dist,
   compute_membership_strengths) and the C02 model (fuzzy union) on those tables
   (fuzzy_simplicial_set, umap_.py:550-607).  Executable definitions only. *)
From Coq Require Import List ZArith Bool.
From UV Require Import Num M_smooth M_union.
Import ListNotations NumNotations.

(* ---- insertion sort w.r.t. a boolean order -------------------------------------------------- *)
Section Sort.
Context {A : Type} (le : A -> A -> bool).
Fixpoint insert (a : A) (l : list A) : list A :=
  match l with
  | [] => [a]
  | b :: r => if le a b then a :: l else b :: insert a r
  end.
Definition isort (l : list A) : list A := fold_right insert [] l.
End Sort.

Section Knn.
Context (N : Num).
Local Open Scope num_scope.
Notation "0" := (zero N) : num_scope.
Notation "1" := (one N) : num_scope.
Variable tol : N.       (* SMOOTH_K_TOLERANCE *)
Variable kscale : N.    (* MIN_K_DIST_SCALE *)

(* an entry of a distance row: (distance, column index) *)
Definition entry : Type := (N * nat)%type.

(* order by (distance, index): what argsort yields when the distances of a row are pairwise distinct *)
Definition ent_le (a b : entry) : bool :=
  (fst a <? fst b) || ((fst a =? fst b) && Nat.leb (snd a) (snd b)).

Definition index_row (row : list N) : list entry := combine row (seq 0 (length row)).

(* fast_knn_indices + the gather of line 316: the k nearest entries of a row, ascending *)
Definition knn_row (k : nat) (row : list N) : list entry := firstn k (isort ent_le (index_row row)).
Definition knn (D : list (list N)) (k i : nat) : list nat := map snd (knn_row k (nth i D [])).

(* configuration of the graph stage *)
Record cfg : Type := mkCfg {
  c_k : nat;            (* n_neighbors *)
  c_niter : nat;        (* n_iter of smooth_knn_dist *)
  c_target : N;         (* log2(k) * bandwidth *)
  c_index : nat;        (* floor(local_connectivity) *)
  c_interp : N;         (* local_connectivity - floor *)
  c_r : N               (* set_op_mix_ratio *)
}.

(* kNN tables: per sample the finite part of its row (ascending) and the number of trailing +inf entries *)
Definition table : Type := list (list entry * nat).

Definition dists_of (t : list entry * nat) : list N * nat := (map fst (fst t), snd t).
Definition zrow (row : list entry) : list (Z * N) := map (fun e => (Z.of_nat (snd e), fst e)) row.

Definition rhos (c : cfg) (tb : table) : list N :=
  map (fun t => rho_of N tol (map fst (fst t)) (snd t) (c_index c) (c_interp c)) tb.

Definition sigmas_of (c : cfg) (tb : table) : list N :=
  map (fun x => fst (fst x))
      (smooth_knn N tol kscale (c_niter c) (c_target c) (map dists_of tb) (c_index c) (c_interp c)).

(* directed membership rows: compute_membership_strengths row by row *)
Fixpoint dir_rows (i : nat) (tb : table) (sr : list (N * N)) : list (list (Z * N)) :=
  match tb, sr with
  | t :: tb', (sigma, rho) :: sr' => memberships N (Z.of_nat i) sigma rho (zrow (fst t)) :: dir_rows (S i) tb' sr'
  | _, _ => []
  end.

(* the graph for given bandwidths (rho is always recomputed from the table) *)
Definition coo_with (c : cfg) (tb : table) (sigmas : list N) : coo N :=
  coo_of_rows N 0 (dir_rows 0 tb (combine sigmas (rhos c tb))).
Definition graph_with (c : cfg) (tb : table) (sigmas : list N) : nat -> nat -> N :=
  graph N (c_r c) (coo_with c tb sigmas).

Definition graph_of_tables (c : cfg) (tb : table) : nat -> nat -> N := graph_with c tb (sigmas_of c tb).

Definition tables_of_dist (k : nat) (D : list (list N)) : table := map (fun row => (knn_row k row, O)) D.

(* what fit computes from a full distance matrix, whichever way the matrix was obtained:
   a named metric and metric="precomputed" on that metric's distances are the same term *)
Definition graph_of_dist (c : cfg) (D : list (list N)) : nat -> nat -> N :=
  graph_of_tables c (tables_of_dist (c_k c) D).

(* ---- the transformations the property speaks about -------------------------------------------- *)
Definition scale_entry (s : N) (e : entry) : entry := (s * fst e, snd e).
Definition scale_table (s : N) (tb : table) : table := map (fun t => (map (scale_entry s) (fst t), snd t)) tb.
Definition scale_mat (s : N) (D : list (list N)) : list (list N) := map (map (mul N s)) D.

(* squared Euclidean distance (distances.py:euclidean is its square root) *)
Fixpoint sqeuclid (x y : list N) : N :=
  match x, y with
  | xi :: x', yi :: y' => (xi - yi) * (xi - yi) + sqeuclid x' y'
  | _, _ => 0
  end.
Definition euclid (x y : list N) : N := nsqrt N (sqeuclid x y).
Fixpoint vadd (x t : list N) : list N :=
  match x, t with
  | xi :: x', ti :: t' => (xi + ti) :: vadd x' t'
  | _, _ => []
  end.
Definition pdist (d : list N -> list N -> N) (X : list (list N)) : list (list N) :=
  map (fun x => map (fun y => d x y) X) X.

(* relabelling the samples of a COO matrix / of a strength function *)
Definition relabel (p : nat -> nat) (A : coo N) : coo N := map (fun e => (p (fst (fst e)), p (snd (fst e)), snd e)) A.

End Knn.

(* Verdict functions (binary64 instance) for the C03 correspondence. *)
From Coq Require Import List ZArith Bool PrimFloat.
From UV Require Import Num FloatFns FNum M_smooth M_union M_knn.
Import ListNotations.
Open Scope float_scope.

Definition code3 (kind : Z) (i j : nat) : Z := (kind * 1000000 + Z.of_nat i * 1000 + Z.of_nat j)%Z.

Fixpoint first_bad3 {A} (f : A -> Z) (l : list A) : Z :=
  match l with
  | [] => (-1)%Z
  | x :: r => let v := f x in if (v =? -1)%Z then first_bad3 f r else v
  end.

Definition allpairs3 (n : nat) : list (nat * nat) :=
  flat_map (fun i => map (fun j => (i, j)) (seq 0 n)) (seq 0 n).

(* one data set: the metric's pairwise distances and the graphs the implementation produced from
   (a) the named metric on the data, (b) metric="precomputed" on the distances, ... *)
Record dist_obs := mkDist {
  d_cfg : cfg FNum;
  d_D : list (list float);
  d_Gs : list (coo FNum)
}.

(* compare one implementation graph with the model graph: kinds 1 (edge the model lacks), 2 (model edge
   missing), 3 (weight); [g] numbers the implementation graph *)
Definition cmp_graph (vtol : float) (n : nat) (gm : nat -> nat -> float) (g : Z) (G : coo FNum) : Z :=
  first_bad3 (fun p => let '(i, j) := p in
                let m := gm i j in let v := lookup FNum G i j in
                if (m =? 0) && negb (v =? 0) then code3 (10 * g + 1) i j else
                if (v =? 0) && (1e-30 <? m) then code3 (10 * g + 2) i j else
                if negb (f_close 0 vtol m v) then code3 (10 * g + 3) i j else (-1)%Z) (allpairs3 n).

Definition verdict_C03 (tol kscale vtol : float) (o : dist_obs) : Z :=
  let c := d_cfg o in
  let n := length (d_D o) in
  let tb := tables_of_dist FNum (c_k FNum c) (d_D o) in
  let A := coo_with FNum tol c tb (sigmas_of FNum tol kscale c tb) in
  let gm := graph FNum (c_r FNum c) A in
  let fix go (g : Z) (Gs : list (coo FNum)) : Z :=
    match Gs with
    | [] => (-1)%Z
    | G :: Gs' => let r := cmp_graph vtol n gm g G in if (r =? -1)%Z then go (g + 1)%Z Gs' else r
    end in
  go 0%Z (d_Gs o).

(* kNN rows only: the neighbour indices the model extracts (used to report where two graphs start to differ) *)
Definition knn_indices_F (k : nat) (D : list (list float)) : list (list nat) :=
  map (fun row => map snd (knn_row FNum k row)) D.

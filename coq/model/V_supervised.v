(* Verdict functions (binary64 instance) for the C16 correspondence. *)
From Coq Require Import List ZArith Bool PrimFloat.
From UV Require Import Num FloatFns FNum M_supervised.
Import ListNotations.
Open Scope float_scope.

Definition fmat : Type := smat FNum.
Definition fkeys (s : fmat) : list (nat * nat) := map (fun e => (erow FNum e, ecol FNum e)) s.
Definition stored_zero (s : fmat) : bool := existsb (fun e => negb (0 <? evl FNum e)) s.
Definition in_range (n : nat) (s : fmat) : bool :=
  forallb (fun e => Nat.ltb (erow FNum e) n && Nat.ltb (ecol FNum e) n) s.

(* below this a float32 array cannot hold the value: such a model entry may be absent from the implementation *)
Definition tiny : float := 0x1p-140.

(* the model's graph is [resym s]; it is evaluated as [resym_tab n s], the same function with the rows of s
   indexed once (T_supervised.resym_tab_eq, proved for every carrier).
   model function [m] against implementation matrix [G] at the candidate positions [ks]: values within
   [atol], and the same support (stored in G <-> non-zero in the model, up to float32 underflow) *)
Definition agree (atol : float) (n : nat) (m : nat -> nat -> float) (G : fmat) (ks : list (nat * nat)) : bool :=
  let Gat := entry_tab FNum n G in        (* = entry_at FNum G (T_supervised.entry_tab_eq), rows indexed once *)
  forallb (fun p => let mv := m (fst p) (snd p) in
     match Gat (fst p) (snd p) with
     | Some gv => f_close 0 atol mv gv && (0 <? mv)
     | None => mv <? tiny
     end) ks.

Fixpoint all2 (f : float -> float -> bool) (a b : list float) : bool :=
  match a, b with
  | [], [] => true
  | x :: a', y :: b' => f x y && all2 f a' b'
  | _, _ => false
  end.

Fixpoint with_vals (s : fmat) (vs : list float) : fmat :=
  match s, vs with
  | e :: s', v :: vs' => (erow FNum e, ecol FNum e, v) :: with_vals s' vs'
  | _, _ => []
  end.

Definition drop_zeros (s : fmat) : fmat := filter (fun e => negb (evl FNum e =? 0)) s.

(* compact rendering of a sparse matrix in the generated files: rows, cols (as Z), values *)
Definition cmat : Type := (list Z * list Z * list float)%type.
Fixpoint zip3 (r c : list Z) (v : list float) : fmat :=
  match r, c, v with
  | i :: r', j :: c', x :: v' => (Z.to_nat i, Z.to_nat j, x) :: zip3 r' c' v'
  | _, _, _ => []
  end.
Definition mat_of (m : cmat) : fmat := let '(r, c, v) := m in zip3 r c v.
Definition well_formed (m : cmat) : bool :=
  let '(r, c, v) := m in
  Nat.eqb (length r) (length v) && Nat.eqb (length c) (length v) && forallb (Z.leb 0) r && forallb (Z.leb 0) c.

Definition same_entry (a b : entry FNum) : bool :=
  Nat.eqb (erow FNum a) (erow FNum b) && Nat.eqb (ecol FNum a) (ecol FNum b) && (evl FNum a =? evl FNum b).
Fixpoint same_mat (a b : fmat) : bool :=
  match a, b with
  | [], [] => true
  | x :: a', y :: b' => same_entry x y && same_mat a' b'
  | _, _ => false
  end.

(* one case: n, unsupervised graph G, labels, target_weight w, and what the implementation returned:
   values after fast_intersection (in G's order), reset_local_connectivity of that attenuated matrix,
   discrete_metric_simplicial_set_intersection(G, y, far), UMAP(target_weight=w).fit(X, y).graph_ *)
Definition case_C16 : Type := (nat * cmat * list Z * float * list float * cmat * cmat * cmat)%type.

Definition verdict_C16 (atol : float) (c : case_C16) : Z :=
  let '(n, cG, labs, w, avals, cR, cD, cF) := c in
  if negb (well_formed cG && well_formed cR && well_formed cD && well_formed cF) then 9%Z else
  let G := mat_of cG in let R := mat_of cR in let D := mat_of cD in let F := mat_of cF in
  if negb (Nat.eqb (length labs) n && in_range n G && in_range n R && in_range n D && in_range n F) then 9%Z else
  let lab := lab_of_list labs in
  let att := map (attenuate FNum (far_of FNum w) (unknown_dist FNum) lab) G in
  if negb (all2 (f_close 0x1p-20 0x1p-145) (map (evl FNum) att) avals) then 1%Z else
  if stored_zero R || stored_zero D || stored_zero F then 5%Z else
  let atti := drop_zeros (with_vals G avals) in
  let sR := rowmax_normalise FNum atti in
  if negb (agree atol n (resym_tab FNum n sR) R (fkeys G ++ fkeys R)) then 2%Z else
  let s := sup_norm FNum G lab w in
  if negb (agree atol n (resym_tab FNum n s) D (fkeys G ++ fkeys D)) then 3%Z else
  if same_mat D F then (-1)%Z else      (* the fitted graph is usually bit-identical to D: nothing left to compare *)
  if negb (agree atol n (resym_tab FNum n s) F (fkeys G ++ fkeys F)) then 4%Z else (-1)%Z.

(* Verdict functions (binary64) for the C17 correspondence. *)
From Coq Require Import List ZArith Bool PrimFloat.
From UV Require Import Num FloatFns FNum M_sgd M_dens V_sgd.
Import ListNotations.
Open Scope float_scope.

Record dens_case := mkDCase {
  dc_base : epoch_case;                   (* as for C07; the kernel was called with densmap_flag = true *)
  dc_phi_sum : list float; dc_re_sum : list float; dc_R : list float; dc_mu : list float;
  dc_re_cov : float; dc_re_std : float; dc_re_mean : float; dc_lambda : float; dc_mu_tot : float
}.

Definition verdict_dens_epoch (ptol ctol : float) (d : dens_case) : Z * Z :=
  let c := dc_base d in
  let cx := mkDens FNum (dc_phi_sum d) (dc_re_sum d) (dc_R d) (dc_mu d) (dc_re_cov d) (dc_re_std d) (dc_re_mean d)
                   (dc_lambda d) (dc_mu_tot d) (f_of_Z (c_nv c)) in
  let s0 := mkSt FNum (mkEmb FNum (c_H c) (c_T c) (c_shared c)) (c_next c) (c_nneg c) (c_rng c) in
  let s1 := epoch_dens FNum true cx (c_a c) (c_b c) (c_gamma c) (c_alpha c) (c_move c) (c_nv c) (c_n c) (map to_edge (c_edges c)) s0 in
  let dH := maxdiff2 (eH FNum (s_emb FNum s1)) (o_H c) in
  let dev := f_to_Z (dH * 1e9) in
  let code :=
    if negb (all_rng (s_rng FNum s1) (o_rng c)) then 1%Z else
    if negb (maxdiff (s_next FNum s1) (o_next c) <=? ctol) then 2%Z else
    if negb (maxdiff (s_nneg FNum s1) (o_nneg c) <=? ctol) then 3%Z else
    if negb (dH <=? ptol) then 4%Z else (-1)%Z in
  (code, dev).

(* per-epoch statistics: (re_sum, phi_sum) of the implementation vs dens_init *)
Definition verdict_dens_init (tol : float) (c : float * float * list (list float) * list edge_f * nat * list float * list float) : Z :=
  let '(a, b, H, es, nvert, re_i, phi_i) := c in
  let '(re_m, phi_m) := dens_init FNum a b (mkEmb FNum H [] true) (map to_edge es) nvert in
  if negb (maxdiff phi_m phi_i <=? tol) then 1%Z else
  if negb (maxdiff re_m re_i <=? tol) then 2%Z else (-1)%Z.

(* local radii: edges (head, tail, mu, D) -> radii vs the implementation's; vertices of degree 0 are skipped *)
Definition verdict_radii (tol : float) (c : nat * list (nat * nat * float * float) * list float) : Z :=
  let '(nvert, es, impl) := c in
  let m := radii FNum nvert (map (fun e => let '(h, t, mu, D) := e in mkRE FNum h t mu D) es) in
  let fix go (i : Z) (a b : list float) : Z :=
    match a, b with
    | x :: a', y :: b' => if f_isnan x && f_isnan y then go (i + 1)%Z a' b'
                          else if f_close tol tol x y then go (i + 1)%Z a' b' else i
    | [], [] => (-1)%Z
    | _, _ => (-2)%Z
    end in
  go 0%Z m impl.

(* the flag schedule *)
Definition flags (dm : bool) (lambda frac : float) (nepochs : Z) : list bool :=
  map (fun n => densmap_flag FNum dm lambda frac (Z.of_nat n) nepochs) (seq 0 (Z.to_nat nepochs)).

(* Model of umap/umap_.py `init_transform` (C10): the initial placement of new points for transform().
     result[i, d] = sum over j (in loop order, starting from 0) of weights[i, j] * embedding[indices[i, j], d]
   [transform_coord] is one coordinate of one new point: the left fold over the neighbour columns j of
   acc + w_ij * E[idx_ij][d], starting from 0 -- the same operations in the same order as the source, so the link holds over
   every [Num].  [mnth] totalises the read of E (an index outside the embedding reads 0; numba would read outside the array:
   outside the meaning; the capstone theorems about the values carry the range hypothesis where they need it).
   The number of output columns is embedding.shape[1] = the length of row 0 of the embedding. *)
From Coq Require Import List ZArith.
From UV Require Import Num PyPrim.
Import ListNotations.

Section InitTransform.
Context (N : Num).

Definition transform_coord (idx : list Z) (w : list N) (E : list (list N)) (d : Z) : N :=
  fold_left (fun a cw => add N a (mul N (snd cw) (mnth N E (fst cw) d))) (combine idx w) (zero N).

Definition transform_row (idx : list Z) (w : list N) (E : list (list N)) : list N :=
  map (fun d => transform_coord idx w E (Z.of_nat d)) (seq 0 (length (mrow N E 0))).

Definition init_transform_model (indices : list (list Z)) (weights : list (list N)) (E : list (list N)) : list (list N) :=
  map (fun p => transform_row (fst p) (snd p) E) (combine indices weights).
End InitTransform.

(* C13: sparse_ll_dirichlet of umap/sparse.py (lines 537-578, the text after fix 31c79b4), executable definitions only.
   A CSR row is an [svec] (model/M_sparse.v).  The scalar helpers approx_log_Gamma / log_beta / log_single_beta of sparse.py
   are textual copies of those of distances.py: the model reuses [log_beta], [log_single_beta] of model/M_metrics.v.

   log_b: the `while` merge over the two index arrays (550-562) adds log_beta(data1[i1], data2[i2]) for every index stored in
   both rows whose product of values is non-zero ([lld_merge]: structural double recursion as [arr_intersect], the running sum
   is an accumulator so that the order of the additions is the loop's).  self_denom1/2 (564-571) sum log_single_beta over ALL
   stored values (a stored zero contributes log_single_beta(0), as in the code).  Rows whose totals are both 0 are at distance
   0, one zero total gives 1e8 (542-545); the radicand is clamped at 0 (578). *)
From Coq Require Import List ZArith Bool Arith.
From UV Require Import Num M_metrics M_sparse.
Import ListNotations NumNotations.

Section SparseLLD.
Context (N : Num) (E : Ext N).
Local Open Scope num_scope.
Notation "0" := (zero N) : num_scope.
Notation "1" := (one N) : num_scope.

Fixpoint lld_merge (a : svec N) : svec N -> N -> N :=
  fix aux (b : svec N) (acc : N) : N :=
  match a, b with
  | [], _ => acc
  | _, [] => acc
  | (i, u) :: a', (j, v) :: b' =>
      if Nat.eqb i j then lld_merge a' b' (if nz N (u * v) then acc + log_beta N E u v else acc)
      else if Nat.ltb i j then lld_merge a' b acc
      else aux b' acc
  end.

Definition lld_far : N := of_Z N 100000000.      (* 1e8 *)

Definition sparse_ll_dirichlet (a b : svec N) : N :=
  let n1 := vsum N (vals N a) in
  let n2 := vsum N (vals N b) in
  if (n1 =? 0) && (n2 =? 0) then 0
  else if (n1 =? 0) || (n2 =? 0) then lld_far
  else
    let log_b := lld_merge a b 0 in
    let sd1 := vsum N (map (log_single_beta N E) (vals N a)) in
    let sd2 := vsum N (map (log_single_beta N E) (vals N b)) in
    nsqrt N (clamp0 N (1 / n2 * (log_b - log_beta N E n1 n2 - (sd2 - log_single_beta N E n2))
                       + 1 / n1 * (log_b - log_beta N E n2 n1 - (sd1 - log_single_beta N E n1)))).
End SparseLLD.

(* C04: the disconnection distance.
   umap_.py:2586-2587 (dense small-data path: dmat[dmat >= t] = inf), 2511-2514 / 2651-2654 (kNN-table
   paths: knn_dists >= t -> index -1, distance inf), 319-322 (nearest_neighbors: inf -> index -1),
   420-423 (index -1 skipped by compute_membership_strengths), 2837-2845 (rows of graph_ that sum to 0
   get NaN coordinates), utils.py disconnected_vertices, 3093 + 1340-1377 (transform / init_graph_transform).
   Executable definitions only.  +inf distances are [None]; a NaN embedding row is [None]. *)
From Coq Require Import List ZArith Bool.
From UV Require Import Num M_smooth M_union M_knn.
Import ListNotations NumNotations.

Section Disconnect.
Context (N : Num).
Local Open Scope num_scope.
Notation "0" := (zero N) : num_scope.
Notation "1" := (one N) : num_scope.
Variable tol : N.
Variable kscale : N.

(* ---- fit, dense path: the matrix is cut first, then the k nearest are taken ------------------- *)
Definition cut1 (t d : N) : option N := if t <=? d then None else Some d.      (* d >= t  ->  inf *)
Definition cut_row (t : N) (row : list N) : list (option N) := map (cut1 t) row.
Definition cut (t : N) (D : list (list N)) : list (list (option N)) := map (cut_row t) D.

Definition oentry : Type := (option N * nat)%type.
(* ascending with +inf last (the relative order of the +inf entries is immaterial: all become index -1) *)
Definition oent_le (a b : oentry) : bool :=
  match fst a, fst b with
  | Some x, Some y => ent_le N (x, snd a) (y, snd b)
  | Some _, None => true
  | None, Some _ => false
  | None, None => Nat.leb (snd a) (snd b)
  end.
Definition oindex_row (row : list (option N)) : list oentry := combine row (seq 0 (length row)).
Definition knn_cut_row (k : nat) (row : list (option N)) : list oentry := firstn k (isort oent_le (oindex_row row)).

(* nearest_neighbors 319-322: entries at infinite distance get index -1; they are carried as a count *)
Definition finite_part (l : list oentry) : list (entry N) :=
  flat_map (fun e => match fst e with Some d => [(d, snd e)] | None => [] end) l.
Definition table_of_cut (k : nat) (row : list (option N)) : list (entry N) * nat :=
  let kr := knn_cut_row k row in
  let fp := finite_part kr in (fp, (length kr - length fp)%nat).
Definition tables_cut (t : N) (k : nat) (D : list (list N)) : table N := map (table_of_cut k) (cut t D).

Definition graph_cut (c : cfg N) (t : N) (D : list (list N)) : nat -> nat -> N :=
  graph_of_tables N tol kscale c (tables_cut t (c_k N c) D).

(* ---- fit, kNN-table paths (sparse precomputed, NN-descent, precomputed_knn): the table is cut --- *)
Definition cut_knn (t : N) (row : list (entry N)) : list (entry N) * nat :=
  let fp := filter (fun e => negb (t <=? fst e)) row in (fp, (length row - length fp)%nat).
Definition tables_cut_knn (t : N) (rows : list (list (entry N))) : table N := map (cut_knn t) rows.
(* sparse precomputed input storing every off-diagonal entry: the row handed to argsort has no self entry *)
Definition sparse_knn_row (k i : nat) (row : list N) : list (entry N) :=
  firstn k (isort (ent_le N) (filter (fun e => negb (Nat.eqb (snd e) i)) (index_row N row))).
Fixpoint sparse_rows (k i : nat) (D : list (list N)) : list (list (entry N)) :=
  match D with [] => [] | row :: D' => sparse_knn_row k i row :: sparse_rows k (S i) D' end.
Definition graph_cut_sparse (c : cfg N) (t : N) (D : list (list N)) : nat -> nat -> N :=
  graph_of_tables N tol kscale c (tables_cut_knn t (sparse_rows (c_k N c) O D)).

(* ---- degree, row sums, the NaN post-processing and disconnected_vertices ---------------------- *)
Definition degree (g : nat -> nat -> N) (n i : nat) : nat :=
  length (filter (fun j => negb (g i j =? 0)) (seq 0 n)).
Definition rowsum (g : nat -> nat -> N) (n i : nat) : N := nsum N (map (g i) (seq 0 n)).

(* np.array(graph_.sum(axis=1)).flatten() == 0 *)
Definition isolated_mask (g : nat -> nat -> N) (n : nat) : list bool := map (fun i => rowsum g n i =? 0) (seq 0 n).

(* 2841-2847: embedding_[mask] = nan ; embedding_ = embedding_[inverse] *)
Definition mark (emb : list (list N)) (mask : list bool) : list (option (list N)) :=
  map (fun p : list N * bool => if snd p then None else Some (fst p)) (combine emb mask).
Definition postprocess (g : nat -> nat -> N) (n : nat) (emb : list (list N)) (inverse : list nat) : list (option (list N)) :=
  let m := mark emb (isolated_mask g n) in
  flat_map (fun u => match nth_error m u with Some r => [r] | None => [] end) inverse.   (* out-of-range: IndexError *)
Definition nan_rows (out : list (option (list N))) : list bool :=
  map (fun r => match r with None => true | Some _ => false end) out.

(* utils.disconnected_vertices: graph_[inverse].sum(axis=1) == 0 (inverse = 0..n-1 unless unique=True) *)
Definition disconnected_vertices (g : nat -> nat -> N) (n : nat) (inverse : list nat) : list bool :=
  flat_map (fun u => if Nat.ltb u n then [rowsum g n u =? 0] else []) inverse.

(* ---- transform --------------------------------------------------------------------------------- *)
(* line 3093: indices[dists >= t] = -1 (the distances themselves are kept) *)
Definition new_indices (t : N) (row : list (N * Z)) : list (Z * N) :=
  map (fun e => (if t <=? fst e then (-1)%Z else snd e, fst e)) row.
(* compute_membership_strengths(bipartite=True): index -1 skipped, no self test *)
Definition memberships_bip (sigma rho : N) (row : list (Z * N)) : list (Z * N) :=
  flat_map (fun e => if (fst e =? -1)%Z then [] else [(fst e, mem N (snd e) rho sigma)]) row.
Definition new_row_with (sigma rho t : N) (row : list (N * Z)) : list (Z * N) :=
  memberships_bip sigma rho (new_indices t row).
(* with the bandwidth the code computes (all k distances take part: none is infinite here) *)
Definition new_row (n_iter : nat) (target mean_all : N) (index : nat) (interp t : N) (row : list (N * Z)) : list (Z * N) :=
  let '(sigma, rho, _) := smooth_row N tol kscale n_iter target mean_all (map fst row) O index interp in
  new_row_with sigma rho t row.

(* init_graph_transform 1363-1375 on one (eliminate_zeros'd) row; the reference layout may hold NaN rows *)
Fixpoint axpy (w : N) (x acc : list N) : list N :=
  match x, acc with
  | xi :: x', ai :: a' => (ai + w * xi) :: axpy w x' a'
  | _, _ => []
  end.
Definition oaxpy (w : N) (x acc : option (list N)) : option (list N) :=
  match x, acc with Some x', Some a' => Some (axpy w x' a') | _, _ => None end.
Fixpoint init_loop (rs : N) (emb : Z -> option (list N)) (acc : option (list N)) (g : list (Z * N)) : option (list N) :=
  match g with
  | [] => acc
  | (c, v) :: g' => if v =? 1 then emb c else init_loop rs emb (oaxpy (v / rs) (emb c) acc) g'
  end.
Definition stored (g : list (Z * N)) : list (Z * N) := filter (fun e => negb (snd e =? 0)) g.
Definition init_row (dim : nat) (emb : Z -> option (list N)) (g : list (Z * N)) : option (list N) :=
  match stored g with
  | [] => None                                                     (* graph_row.nnz == 0 -> NaN *)
  | g' => init_loop (nsum N (map snd g')) emb (Some (repeat 0 dim)) g'
  end.

End Disconnect.

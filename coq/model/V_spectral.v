(* Verdict functions (binary64 instance) for the C15 correspondence.  -1 = model and implementation agree. *)
From Coq Require Import List ZArith Bool Arith PrimFloat.
From UV Require Import Num FloatFns FNum M_spectral.
Import ListNotations.
Open Scope float_scope.

(* sparse row: (column, value) pairs; absent = 0, duplicates summed *)
Definition srow := list (nat * float).
Fixpoint srow_get (r : srow) (j : nat) : float :=
  match r with
  | [] => 0
  | (j', v) :: r' => if Nat.eqb j j' then v + srow_get r' j else srow_get r' j
  end.
Definition mat_of (rows : list srow) : nat -> nat -> float := fun i j => srow_get (nth i rows []) j.

(* tabulate a function on 0..n-1 once (pure memoisation: tab n f i = f i for i < n) *)
Definition tab (n : nat) (f : nat -> float) : nat -> float :=
  let l := map f (seq 0 n) in fun i => nth i l 0.

Definition pairs (n : nat) : list (nat * nat) :=
  flat_map (fun i => map (fun j => (i, j)) (seq 0 n)) (seq 0 n).

(* (a) the matrix handed to the eigen-solver vs laplacian n A, every entry, absolute tolerance *)
Definition verdict_lap (atol : float) (c : nat * list srow * list srow) : Z :=
  let '(n, Ar, Lr) := c in
  let A := mat_of Ar in
  let Lm := laplacian_with FNum (tab n (dinv FNum n A)) A in
  let Li := mat_of Lr in
  match find (fun p => negb (f_close 0 atol (Lm (fst p) (snd p)) (Li (fst p) (snd p)))) (pairs n) with
  | None => (-1)%Z
  | Some (i, j) => Z.of_nat (i * n + j)
  end.

(* (b) columns returned by spectral_layout vs select_cols on the eigenvalues the solver (spy) handed back *)
Definition feq_list (a b : list float) : bool :=
  Nat.eqb (length a) (length b) && forallb (fun p => fst p =? snd p) (combine a b).
Fixpoint index_of (c : list float) (cols : list (list float)) (i : nat) : option nat :=
  match cols with
  | [] => None
  | c' :: cols' => if feq_list c c' then Some i else index_of c cols' (S i)
  end.
Fixpoint has_ties (l : list float) : bool :=
  match l with [] => false | x :: l' => existsb (fun y => x =? y) l' || has_ties l' end.
Fixpoint first_diff_nat (a b : list nat) (i : nat) : option nat :=
  match a, b with
  | [], [] => None
  | x :: a', y :: b' => if Nat.eqb x y then first_diff_nat a' b' (S i) else Some i
  | _, _ => Some i
  end.
Fixpoint first_diff_f (a b : list float) (i : nat) : option nat :=
  match a, b with
  | [], [] => None
  | x :: a', y :: b' => if x =? y then first_diff_f a' b' (S i) else Some i
  | _, _ => Some i
  end.
Definition all_some {X} (l : list (option X)) : option (list X) :=
  fold_right (fun o acc => match o, acc with Some x, Some r => Some (x :: r) | _, _ => None end) (Some []) l.

(* case: n, graph, eigenvalues as seen by the argsort line, the solver's columns, dim, the returned columns.
   codes: -2 wrong number of columns, -3 a returned column is not one of the solver's, j >= 0 first position
   whose column (or, when eigenvalues tie, whose eigenvalue) differs from the model's selection *)
Definition compare_selection (evals : list float) (cols : list (list float)) (sel : list nat) (out : list (list float)) : Z :=
  if negb (Nat.eqb (length out) (length sel)) then (-2)%Z else
  match all_some (map (fun o => index_of o cols 0) out) with
  | None => (-3)%Z
  | Some idx =>
      let d := if has_ties evals
               then first_diff_f (map (fun i => nth i evals nan) idx) (map (fun i => nth i evals nan) sel) 0
               else first_diff_nat idx sel 0 in
      match d with None => (-1)%Z | Some j => Z.of_nat j end
  end.

(* legacy selection: order = argsort(eigenvalues)[1:k] *)
Definition verdict_select (c : nat * list srow * list float * list (list float) * nat * list (list float)) : Z :=
  let '(n, Ar, evals, cols, dim, out) := c in
  compare_selection evals cols (select_cols FNum evals (S dim)) out.

(* repaired selection: drop the column parallel to sqrt(deg) if present, keep the first dim *)
Definition verdict_select_nt (c : nat * list srow * list float * list (list float) * nat * list (list float)) : Z :=
  let '(n, Ar, evals, cols, dim, out) := c in
  let A := mat_of Ar in
  let s := tab n (sqrt_deg FNum n A) in
  let V := fun i c => nth i (nth c cols []) 0 in
  compare_selection evals cols (select_nontrivial FNum n s evals V dim) out.

(* (c) multi_component_layout vs multi_layout.
   case: dim, labels, ncomp, centres (None: n_components <= 2*dim, the model computes them), the pairwise_distances
   rows the implementation used, observed data_range of the uniform draws (None where not observed), the blocks the
   generator / recursive solver returned, the float32 result rows.
   codes: -2 row count, -3 a distance row differs from the Euclidean distances of the centres, -4 the model says
   NumPy raises, -5 a vertex not written exactly once, -6 observed data_range differs, v >= 0 first vertex whose row differs *)
Definition close_list (rtol atol : float) (a b : list float) : bool :=
  Nat.eqb (length a) (length b) && forallb (fun p => f_close rtol atol (fst p) (snd p)) (combine a b).

Definition verdict_multi (rtol atol : float)
  (c : nat * list nat * nat * option (list (list float)) * list (list float) * list (option float)
       * list (list (list float)) * list (list float)) : Z :=
  let '(dim, labels, ncomp, meta_o, dists, ranges, blocks, result) := c in
  let meta := match meta_o with Some m => m | None => meta_embedding FNum ncomp dim end in
  let dist_f := fun c => nth c dists [] in
  let block_f := fun c => nth c blocks [] in
  if negb (forallb (fun c => close_list 0 0x1p-20 (meta_dists FNum meta c) (dist_f c)) (seq 0 ncomp)) then (-3)%Z else
  if negb (forallb (fun c => match nth c ranges None, data_range FNum (dist_f c) with
                             | Some r, Some m => f_close 0x1p-40 0 m r
                             | Some _, None => false
                             | None, _ => true end) (seq 0 ncomp)) then (-6)%Z else
  match multi_layout FNum dim labels ncomp meta dist_f block_f with
  | None => (-4)%Z
  | Some hist =>
      if negb (Nat.eqb (length hist) (length result)) then (-2)%Z else
      if negb (forallb (fun h => Nat.eqb (length h) 1) hist) then (-5)%Z else
      match find (fun p => negb (close_list rtol atol (hd [] (fst (snd p))) (snd (snd p))))
                 (combine (seq 0 (length hist)) (combine hist result)) with
      | None => (-1)%Z
      | Some (v, _) => Z.of_nat v
      end
  end.

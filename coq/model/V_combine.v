(* Verdict functions (binary64 instance) for the C18 correspondence. *)
From Coq Require Import List ZArith Bool PrimFloat.
From UV Require Import Num FloatFns FNum M_supervised V_supervised M_combine.
Import ListNotations.
Open Scope float_scope.

(* rounding of a binary64 value to the nearest float32 (ties to even), incl. the float32 subnormal range;
   the storage rounding [st] of the implementation's float32 arrays.  Self-tested per run against numpy. *)
Definition f_round32 (x : float) : float :=
  if f_isnan x || f_isinf x || (x =? 0) then x else
  let (m, e) := f_frexp x in                               (* x = m * 2^e, 0.5 <= |m| < 1 *)
  let q := Z.max (e - 24) (-149) in                        (* exponent of the float32 quantum at x *)
  let y := f_ldexp x (- q) in                              (* |y| < 2^24, exact *)
  let r := if 0 <? y then (y + 0x1p52) - 0x1p52 else (y - 0x1p52) + 0x1p52 in
  let z := f_ldexp r q in
  if 0x1.fffffep127 <? abs z then (if 0 <? z then infinity else neg_infinity) else z.

(* kernels may legitimately store zeros (1 - b = 0 in the complement) *)
Definition agree_k (atol : float) (n : nat) (m : fmat) (G : fmat) : bool :=
  let mat := entry_tab FNum n m in let Gat := entry_tab FNum n G in     (* = entry_at (T_supervised.entry_tab_eq) *)
  forallb (fun p => f_close 0 atol (stored FNum (mat (fst p) (snd p))) (stored FNum (Gat (fst p) (snd p)))
                    && Bool.eqb (is_some FNum (mat (fst p) (snd p))) (is_some FNum (Gat (fst p) (snd p))))
          (fkeys m ++ fkeys G).

Definition tkeys (s : fmat) : list (nat * nat) := map (fun e => (ecol FNum e, erow FNum e)) s.

(* one case: n, A, B, weight w, and the implementation's
   KU = general_simplicial_set_union(A, B), KI = general_simplicial_set_intersection(A, B, w),
   KC = general_simplicial_set_intersection(A, B, 0.5, right_complement=True),
   RT = reset_local_connectivity(KI, True), RF = reset_local_connectivity(KU, False),
   GA, GM, GS = (A + B).graph_, (A * B).graph_, (A - B).graph_ *)
Definition case_C18 : Type :=
  (nat * cmat * cmat * float * cmat * cmat * cmat * cmat * cmat * cmat * cmat * cmat)%type.

Definition verdict_C18 (tol : float) (kk : Z) (n_iters : nat) (atol : float) (c : case_C18) : Z :=
  let '(n, cA, cB, w, cKU, cKI, cKC, cRT, cRF, cGA, cGM, cGS) := c in
  if negb (forallb well_formed [cA; cB; cKU; cKI; cKC; cRT; cRF; cGA; cGM; cGS]) then 99%Z else
  let A := mat_of cA in let B := mat_of cB in
  let KU := mat_of cKU in let KI := mat_of cKI in let KC := mat_of cKC in
  let RT := mat_of cRT in let RF := mat_of cRF in
  let GA := mat_of cGA in let GM := mat_of cGM in let GS := mat_of cGS in
  if negb (forallb (in_range n) [A; B; KU; KI; KC; RT; RF; GA; GM; GS]) then 99%Z else
  let st := f_round32 in
  let mKU := store FNum st (sset_union FNum n A B) in
  if negb (agree_k atol n mKU KU) then 1%Z else
  if negb (agree_k atol n (store FNum st (sset_intersection FNum n w A B)) KI) then 2%Z else
  if negb (agree_k atol n (store FNum st (right_complement FNum n (half FNum) A B)) KC) then 3%Z else
  if existsb stored_zero [RT; RF; GA; GM; GS] then 10%Z else
  let sT := reset_norm FNum st tol kk n_iters n true KI in
  if negb (agree atol n (resym_tab FNum n sT) RT (fkeys sT ++ tkeys sT ++ fkeys RT)) then 4%Z else
  let sF := reset_norm FNum st tol kk n_iters n false KU in
  if negb (agree atol n (resym_tab FNum n sF) RF (fkeys sF ++ tkeys sF ++ fkeys RF)) then 5%Z else
  let sA := combine_norm FNum st tol kk n_iters n Add A B in
  if negb (agree atol n (resym_tab FNum n sA) GA (fkeys sA ++ tkeys sA ++ fkeys GA)) then 6%Z else
  let sM := combine_norm FNum st tol kk n_iters n Mul A B in
  if negb (agree atol n (resym_tab FNum n sM) GM (fkeys sM ++ tkeys sM ++ fkeys GM)) then 7%Z else
  let sS := combine_norm FNum st tol kk n_iters n Sub A B in
  if negb (agree atol n (resym_tab FNum n sS) GS (fkeys sS ++ tkeys sS ++ fkeys GS)) then 8%Z else (-1)%Z.

(* operator pre-checks: the decision the model takes (0 = combined, 1 = NotFittedError, 2 = ValueError) *)
Definition precheck_code (fa fb : bool) (na nb : nat) : Z :=
  match combine_checked FNum f_round32 0 15%Z 32%nat Add (if fa then Some (na, []) else None) (if fb then Some (nb, []) else None) with
  | NotFitted _ => 1%Z
  | SizeMismatch _ => 2%Z
  | Combined _ _ => 0%Z
  end.

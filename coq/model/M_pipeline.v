(* C05: the pieces of fit_transform that decide "one finite row per sample":
   n_neighbors resolution (umap_.py:2454-2470), per-axis rescale of the initial layout (1188-1192, after
   the repair that guards a zero range), unique / inverse bookkeeping (2417-2452, 2847; utils.py csr_unique),
   and the denominators of the SGD step (layouts.py:136-140, 167-171; model in M_sgd.v). *)
From Coq Require Import List ZArith Bool Arith.
From UV Require Import Num M_smooth.
Import ListNotations NumNotations.

(* ---- n_neighbors resolution -------------------------------------------------------------------------- *)
Inductive kres := Shortcut | UseK (k : nat) (warned : bool).
Definition resolve_k (n k : nat) : kres :=
  if Nat.leb n k then (if Nat.eqb n 1 then Shortcut else UseK (n - 1) true) else UseK k false.

(* ---- unique rows: the (index, inverse) contract ------------------------------------------------------- *)
Definition row := list Z.
Fixpoint row_eqb (a b : row) : bool :=
  match a, b with
  | [], [] => true
  | x :: a', y :: b' => Z.eqb x y && row_eqb a' b'
  | _, _ => false
  end.

(* what fit relies on: index picks pairwise distinct rows, inverse maps every input row to the position of
   an equal row among them *)
Definition check_unique (rows : list row) (index inverse : list nat) : bool :=
  Nat.eqb (length inverse) (length rows) &&
  forallb (fun i => Nat.ltb i (length rows)) index &&
  forallb (fun p => Nat.ltb p (length index)) inverse &&
  forallb (fun i => row_eqb (nth (nth (nth i inverse 0) index 0) rows []) (nth i rows [])) (seq 0 (length rows)) &&
  forallb (fun p => forallb (fun q => negb (Nat.ltb p q) || negb (row_eqb (nth (nth p index 0) rows []) (nth (nth q index 0) rows [])))
                            (seq 0 (length index))) (seq 0 (length index)).

(* the output of fit: row i of the result is row inverse[i] of the embedding of the distinct rows *)
Definition expand {A} (emb : list A) (inverse : list nat) (d : A) : list A := map (fun p => nth p emb d) inverse.

Section Rescale.
Context (N : Num).
Local Open Scope num_scope.
Notation "0" := (zero N) : num_scope.
Notation "1" := (one N) : num_scope.

Definition nmin (a b : N) : N := if a <=? b then a else b.
Definition col_min (c : list N) : N := match c with [] => 0 | x :: r => fold_left nmin r x end.
Definition col_max (c : list N) : N := match c with [] => 0 | x :: r => fold_left (nmax N) r x end.

(* one coordinate axis: 10 * (x - min) / range, range = max - min, or 1 when that is 0 *)
Definition rescale (c : list N) : list N :=
  let lo := col_min c in
  let rg := col_max c - lo in
  let rg := if rg =? 0 then 1 else rg in
  map (fun x => of_Z N 10 * (x - lo) / rg) c.

(* the version before the repair: no guard (None = 0/0 = NaN for every entry) *)
Definition rescale_unguarded (c : list N) : option (list N) :=
  let lo := col_min c in
  let rg := col_max c - lo in
  if rg =? 0 then None else Some (map (fun x => of_Z N 10 * (x - lo) / rg) c).
End Rescale.

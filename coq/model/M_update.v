(* C11: UMAP.update on a small-data (exact neighbour) model, umap_.py:3362-3590, and init_update
   (1379-1390).  Executable definitions only.

   Part 1 (decision level): which n_neighbors, which distance table and which disconnection cut the
   graph stage is run with by fit (2461-2476, 2577-2580) and by update (3385-3437).  The graph stage itself
   (fuzzy_simplicial_set on a precomputed table) is a parameter [gs] here; part 3 instantiates it with the
   C01/C02 models for the correspondence.  Two facts about the text of update() are parameters ([ucode]),
   read from the current source by the harness:
     re_resolve    = update() re-derives _n_neighbors from the stacked sample count as fit does,
     cut_on_update = update() applies the disconnection distance to the distance table as fit does.
   Part 2: init_update over an arbitrary Num.
   Part 3: an executable graph stage. *)
From Coq Require Import List ZArith Bool Arith.
From UV Require Import Num M_smooth M_union.
Import ListNotations NumNotations.

(* fit 2461-2476: n_neighbors is truncated to n - 1 when the data set has at most n_neighbors samples *)
Definition resolve_k (nn n : nat) : nat := if Nat.leb n nn then n - 1 else nn.

Record ucode := mkUcode { re_resolve : bool; cut_on_update : bool }.

Section Decisions.
Context (N : Num).
Local Open Scope num_scope.
Variable point : Type.
Variable dist : point -> point -> N.                    (* the metric *)
Variable G : Type.
Variable gs : nat -> list (list (option N)) -> G.       (* graph stage: k, distance table (None = +inf) *)

(* pairwise_distances(X) *)
Definition dmat (X : list point) : list (list N) := map (fun x => map (dist x) X) X.

(* dmat[dmat >= disconnection_distance] = inf; the default disconnection distance is +inf = [None] *)
Definition cut_entry (disc : option N) (d : N) : option N :=
  match disc with
  | Some t => if t <=? d then None else Some d
  | None => Some d
  end.
Definition cut (disc : option N) (D : list (list N)) : list (list (option N)) := map (map (cut_entry disc)) D.

Record fitted := mkFitted { f_X : list point; f_k : nat; f_G : G }.

Definition fit (nn : nat) (disc : option N) (X : list point) : fitted :=
  let k := resolve_k nn (length X) in
  mkFitted X k (gs k (cut disc (dmat X))).

Definition update (c : ucode) (nn : nat) (disc : option N) (s : fitted) (X2 : list point) : fitted :=
  let X := f_X s ++ X2 in
  let k := if re_resolve c then resolve_k nn (length X) else f_k s in
  mkFitted X k (gs k (cut (if cut_on_update c then disc else None) (dmat X))).

(* fit(X1); update(B1); update(B2); ... *)
Definition update_chain (c : ucode) (nn : nat) (disc : option N) (X1 : list point) (batches : list (list point)) : fitted :=
  fold_left (update c nn disc) batches (fit nn disc X1).

End Decisions.

(* ---- init_update ------------------------------------------------------------------------------------- *)
Section InitUpdate.
Context (N : Num).
Local Open Scope num_scope.
Notation "0" := (zero N) : num_scope.

Fixpoint vadd (a b : list N) : list N :=
  match a, b with
  | x :: a', y :: b' => (x + y) :: vadd a' b'
  | _, _ => []
  end.

Definition rowZ (tbl : list (list N)) (j : Z) : list N := nth (Z.to_nat j) tbl [].

(* `0 <= indices[i, j] < n_original_samples` *)
Definition is_old (n_orig j : Z) : bool := (0 <=? j)%Z && (j <? n_orig)%Z.

(* the loop over the columns of the index row: the running row and the neighbour counter *)
Fixpoint acc_old (tbl : list (list N)) (n_orig : Z) (idx : list Z) (cur : list N) (n : nat) : list N * nat :=
  match idx with
  | [] => (cur, n)
  | j :: r => if is_old n_orig j then acc_old tbl n_orig r (vadd cur (rowZ tbl j)) (S n)
              else acc_old tbl n_orig r cur n
  end.

(* one new row: the accumulated sum is divided by the number of old neighbours, if there is one *)
Definition init_row (tbl : list (list N)) (n_orig : Z) (idx : list Z) (cur : list N) : list N :=
  let '(s, n) := acc_old tbl n_orig idx cur O in
  if Nat.eqb n 0 then s else map (fun x => x / of_Z N (Z.of_nat n)) s.

(* rows below n_original_samples are kept; each later row i is rebuilt from the *old* rows only, which the
   loop never writes, so reading them from the input table is what the in-place code does *)
Definition init_update (tbl : list (list N)) (n_orig : nat) (indices : list (list Z)) : list (list N) :=
  firstn n_orig tbl ++
  map (fun p => init_row tbl (Z.of_nat n_orig) (snd p) (fst p)) (combine (skipn n_orig tbl) (skipn n_orig indices)).

(* the code before the repair: the test was `indices[i, j] < n_original_samples` only, the counter was
   incremented once per (neighbour, dimension), and the division was unconditional ([None] =
   ZeroDivisionError).  Meaningful for non-negative indices (a negative index addressed the table from its end). *)
Fixpoint acc_old_legacy (tbl : list (list N)) (n_orig : Z) (idx : list Z) (cur : list N) (n : nat) : list N * nat :=
  match idx with
  | [] => (cur, n)
  | j :: r => if (j <? n_orig)%Z then acc_old_legacy tbl n_orig r (vadd cur (rowZ tbl j)) (n + length cur)
              else acc_old_legacy tbl n_orig r cur n
  end.
Definition init_row_legacy (tbl : list (list N)) (n_orig : Z) (idx : list Z) (cur : list N) : option (list N) :=
  let '(s, n) := acc_old_legacy tbl n_orig idx cur O in
  if Nat.eqb n 0 then None else Some (map (fun x => x / of_Z N (Z.of_nat n)) s).

End InitUpdate.

(* ---- an executable graph stage: nearest_neighbors('precomputed') + smooth_knn_dist +
        compute_membership_strengths + the fuzzy union -------------------------------------------------- *)
Section GraphStage.
Context (N : Num).
Local Open Scope num_scope.
Notation "0" := (zero N) : num_scope.

Variable tol kscale : N.      (* SMOOTH_K_TOLERANCE, MIN_K_DIST_SCALE *)
Variable n_iter : nat.
Variable lc_index : nat.      (* local_connectivity = lc_index + lc_interp *)
Variable lc_interp : N.
Variable r : N.               (* set_op_mix_ratio *)

(* stable insertion sort of the finite entries of a row by distance *)
Fixpoint insert (e : N * Z) (l : list (N * Z)) : list (N * Z) :=
  match l with
  | [] => [e]
  | h :: t => if fst e <=? fst h then e :: l else h :: insert e t
  end.

Fixpoint finite_entries (j : Z) (row : list (option N)) : list (N * Z) :=
  match row with
  | [] => []
  | Some d :: t => (d, j) :: finite_entries (j + 1)%Z t
  | None :: t => finite_entries (j + 1)%Z t
  end.

Definition sort_row (row : list (option N)) : list (N * Z) := fold_right insert [] (finite_entries 0%Z row).

(* the k nearest: (distances of the finite part, their indices, number of +inf entries among the k) *)
Definition knn_row (k : nat) (row : list (option N)) : list N * list Z * nat :=
  let top := firstn k (sort_row row) in
  (map fst top, map snd top, (k - length top)%nat).

Definition log2k (k : nat) : N := nln N (of_Z N (Z.of_nat k)) / nln N (of_Z N 2).

Fixpoint member_rows (i : Z) (knn : list (list N * list Z * nat)) (sr : list (N * N * bool)) : list (list (Z * N)) :=
  match knn, sr with
  | (ds, js, _) :: knn', (sigma, rho, _) :: sr' =>
      memberships N i sigma rho (combine js ds) :: member_rows (i + 1)%Z knn' sr'
  | _, _ => []
  end.

Definition directed (k : nat) (table : list (list (option N))) : coo N :=
  let knn := map (knn_row k) table in
  let sr := smooth_knn N tol kscale n_iter (log2k k) (map (fun t => (fst (fst t), snd t)) knn) lc_index lc_interp in
  coo_of_rows N 0 (member_rows 0%Z knn sr).

Definition graph_stage (k : nat) (table : list (list (option N))) : nat -> nat -> N :=
  graph N r (directed k table).

End GraphStage.

(* Verdict function (exact, integers) for the C19 correspondence: the implementation's relation tensor
   (flattened, -1 = none) against the model's. *)
From Coq Require Import List ZArith Bool Arith.
From UV Require Import M_relations.
Import ListNotations.

Definition cellZ (c : cell) : Z := match c with Some n => Z.of_nat n | None => (-1)%Z end.
Definition flat (t : tensor) : list Z := map cellZ (concat (concat t)).

Definition shape_ok (t : tensor) (sh : nat * nat * nat) : bool :=
  let '(a, b, c) := sh in
  Nat.eqb (length t) a &&
  forallb (fun rows => Nat.eqb (length rows) b && forallb (fun r => Nat.eqb (length r) c) rows) t.

Fixpoint first_diff (i : Z) (a b : list Z) : Z :=
  match a, b with
  | [], [] => (-1)%Z
  | x :: a', y :: b' => if (x =? y)%Z then first_diff (i + 1)%Z a' b' else i
  | _, _ => i
  end.

(* case = (relation dicts, window, status of the call (0 returned, 1 ValueError, 2 IndexError, 3 other),
           shape of the returned array, its entries in C order)
   verdict: -1 agree; >= 0 flat index of the first differing entry; -2 shape; -3 outcome class;
            -4 differs from the model but equals the model with the original (unrepaired) bound *)
Definition verdict_C19 (c : list dict * nat * Z * (nat * nat * nat) * list Z) : Z :=
  let '(ds, w, status, sh, impl) := c in
  match expand ds w with
  | Ok t =>
      if negb (status =? 0)%Z then (-3)%Z
      else if negb (shape_ok t sh) then (-2)%Z
      else let v := first_diff 0%Z (flat t) impl in
           if (v =? -1)%Z then v
           else match expand_orig ds w with
                | Ok t' => if (first_diff 0%Z (flat t') impl =? -1)%Z then (-4)%Z else v
                | _ => v
                end
  | ValueErr => if (status =? 1)%Z then (-1)%Z else (-3)%Z
  | IndexErr => if (status =? 2)%Z then (-1)%Z else (-3)%Z
  end.

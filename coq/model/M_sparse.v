(* C13: sparse helpers and sparse metrics of umap/sparse.py (lines 17-142 and 234-497), plus the dense
   textbook counterparts (umap/distances.py) they are compared with.  Executable definitions only.

   A CSR row (ind, data) is a list of (index, value) pairs [svec].  The two `while` merge loops are
   structural double recursions (outer on the first list, inner `fix` on the second), so there is no
   fuel and no unreachable default.  `arr_union` / `arr_intersect` (np.sort of the concatenation followed
   by the adjacent-duplicate filter) are modelled as the two-way merge they compute on sorted inputs
   (canonical CSR rows always are); the helper correspondence compares them exactly on such inputs.

   [sparse_correlation] is the function AFTER the proposed repairs (proposed_fixes/C13_*.diff):
   common indices = arr_intersect(ind1, ind2), and no early `return 1.0` for one empty row.
   [sparse_correlation_orig] is the unrepaired text (kept for the `_refuted` theorems). *)
From Coq Require Import List ZArith Bool Arith.
From UV Require Import Num.
Import ListNotations NumNotations.

Section Sparse.
Context (N : Num).
Local Open Scope num_scope.
Notation "0" := (zero N) : num_scope.
Notation "1" := (one N) : num_scope.

Definition svec := list (nat * N).
Definition inds (c : svec) : list nat := map fst c.
Definition vals (c : svec) : list N := map snd c.
Definition map_vals (f : N -> N) (c : svec) : svec := map (fun e => (fst e, f (snd e))) c.

Definition nz (v : N) : bool := negb (v =? 0).                    (* val != 0 *)
Definition ofn (k : nat) : N := of_Z N (Z.of_nat k).               (* float(k) *)
Definition two : N := of_Z N 2.
Definition half : N := 1 / two.

(* `if val != 0: result[nnz] = (j, val); nnz += 1` *)
Definition keep (i : nat) (v : N) (r : svec) : svec := if nz v then (i, v) :: r else r.
Definition drop0 (c : svec) : svec := filter (fun e => nz (snd e)) c.   (* the tail loops 83-97 *)

(* ---- index merges: arr_union (27-33), arr_intersect (39-42) on sorted index arrays ------------- *)
Fixpoint arr_union (a : list nat) : list nat -> list nat :=
  fix aux (b : list nat) : list nat :=
  match a, b with
  | [], _ => b
  | _, [] => a
  | i :: a', j :: b' =>
      if Nat.eqb i j then i :: arr_union a' b'
      else if Nat.ltb i j then i :: arr_union a' b
      else j :: aux b'
  end.

Fixpoint arr_intersect (a : list nat) : list nat -> list nat :=
  fix aux (b : list nat) : list nat :=
  match a, b with
  | [], _ => []
  | _, [] => []
  | i :: a', j :: b' =>
      if Nat.eqb i j then i :: arr_intersect a' b'
      else if Nat.ltb i j then arr_intersect a' b
      else aux b'
  end.

(* ---- sparse_sum (46-103): merge loop 55-80, tails 83-97, truncation to nnz -------------------- *)
Fixpoint sparse_sum (a : svec) : svec -> svec :=
  fix aux (b : svec) : svec :=
  match a, b with
  | [], _ => drop0 b
  | _, [] => drop0 a
  | (i, u) :: a', (j, v) :: b' =>
      if Nat.eqb i j then keep i (u + v) (sparse_sum a' b')
      else if Nat.ltb i j then keep i u (sparse_sum a' b)
      else keep j v (aux b')
  end.

(* sparse_diff (107-108) *)
Definition sparse_diff (a b : svec) : svec := sparse_sum a (map_vals (neg N) b).

(* sparse_mul (112-142) *)
Fixpoint sparse_mul (a : svec) : svec -> svec :=
  fix aux (b : svec) : svec :=
  match a, b with
  | [], _ => []
  | _, [] => []
  | (i, u) :: a', (j, v) :: b' =>
      if Nat.eqb i j then keep i (u * v) (sparse_mul a' b')
      else if Nat.ltb i j then sparse_mul a' b
      else aux b'
  end.

(* ---- dense view ------------------------------------------------------------------------------ *)
Fixpoint get (c : svec) (i : nat) : N :=
  match c with
  | [] => 0
  | (j, v) :: c' => if Nat.eqb i j then v else get c' i
  end.
Definition densify (n : nat) (c : svec) : list N := map (get c) (seq 0 n).

(* ---- small numeric helpers --------------------------------------------------------------------- *)
(* `result = 0.0; for v in data: result += f(v)` *)
Definition accum (f : N -> N) (l : list N) : N := fold_left (fun r v => r + f v) l 0.
Definition idf (v : N) : N := v.
Definition sq (v : N) : N := v * v.
(* Python's max(a, b): b if b > a else a *)
Definition nmax (a b : N) : N := if a <? b then b else a.
Definition amax (l : list N) : N := fold_left (fun r v => nmax r (nabs N v)) l 0.
(* umap.utils.norm *)
Definition norm2 (l : list N) : N := nsqrt N (accum sq l).
Definition memb (i : nat) (l : list nat) : bool := existsb (Nat.eqb i) l.
Fixpoint list_eqb (a b : list nat) : bool :=
  match a, b with
  | [], [] => true
  | i :: a', j :: b' => Nat.eqb i j && list_eqb a' b'
  | _, _ => false
  end.
Definition countb (p : N -> bool) (l : list N) : nat := length (filter p l).

(* ---- sparse metrics (234-497) ------------------------------------------------------------------ *)
Definition sparse_euclidean (a b : svec) : N := nsqrt N (accum sq (vals (sparse_diff a b))).
Definition sparse_manhattan (a b : svec) : N := accum (nabs N) (vals (sparse_diff a b)).
Definition sparse_chebyshev (a b : svec) : N := amax (vals (sparse_diff a b)).
Definition sparse_minkowski (p : N) (a b : svec) : N :=
  npow N (accum (fun v => npow N (nabs N v) p) (vals (sparse_diff a b))) (1 / p).

Definition sparse_hamming (a b : svec) (n : nat) : N := ofn (length (sparse_diff a b)) / ofn n.

Definition sparse_canberra (a b : svec) : N :=
  let denom := map_vals (fun v => 1 / v) (sparse_sum (map_vals (nabs N) a) (map_vals (nabs N) b)) in
  let numer := map_vals (nabs N) (sparse_diff a b) in
  accum idf (vals (sparse_mul numer denom)).

Definition sparse_bray_curtis (a b : svec) : N :=
  let denom := map_vals (nabs N) (sparse_sum a b) in
  match denom with
  | [] => 0
  | _ => let denominator := accum idf (vals denom) in
         if denominator =? 0 then 0 else
         accum idf (vals (map_vals (nabs N) (sparse_diff a b))) / denominator
  end.

(* integer counts shared by the binary family *)
Definition n_union (a b : svec) : Z := Z.of_nat (length (arr_union (inds a) (inds b))).
Definition n_inter (a b : svec) : Z := Z.of_nat (length (arr_intersect (inds a) (inds b))).
Definition n_neq (a b : svec) : Z := (n_union a b - n_inter a b)%Z.

Definition sparse_jaccard (a b : svec) : N :=
  if (n_union a b =? 0)%Z then 0 else of_Z N (n_union a b - n_inter a b) / of_Z N (n_union a b).
Definition sparse_matching (a b : svec) (n : nat) : N := of_Z N (n_neq a b) / ofn n.
Definition sparse_dice (a b : svec) : N :=
  if (n_neq a b =? 0)%Z then 0 else of_Z N (n_neq a b) / (two * of_Z N (n_inter a b) + of_Z N (n_neq a b)).
Definition sparse_kulsinski (a b : svec) (n : nat) : N :=
  if (n_neq a b =? 0)%Z then 0 else
  of_Z N (n_neq a b - n_inter a b + Z.of_nat n) / of_Z N (n_neq a b + Z.of_nat n).
Definition sparse_rogers_tanimoto (a b : svec) (n : nat) : N :=
  (two * of_Z N (n_neq a b)) / of_Z N (Z.of_nat n + n_neq a b).
Definition sparse_russellrao (a b : svec) (n : nat) : N :=
  if list_eqb (inds a) (inds b) then 0 else
  if (n_inter a b =? Z.of_nat (countb nz (vals a)))%Z && (n_inter a b =? Z.of_nat (countb nz (vals b)))%Z then 0
  else of_Z N (Z.of_nat n - n_inter a b) / ofn n.
Definition sparse_sokal_michener (a b : svec) (n : nat) : N :=
  (two * of_Z N (n_neq a b)) / of_Z N (Z.of_nat n + n_neq a b).
Definition sparse_sokal_sneath (a b : svec) : N :=
  if (n_neq a b =? 0)%Z then 0 else of_Z N (n_neq a b) / (half * of_Z N (n_inter a b) + of_Z N (n_neq a b)).

Definition sparse_cosine (a b : svec) : N :=
  let result := accum idf (vals (sparse_mul a b)) in
  let norm1 := norm2 (vals a) in
  let norm2' := norm2 (vals b) in
  if (norm1 =? 0) && (norm2' =? 0) then 0
  else if (norm1 =? 0) || (norm2' =? 0) then 1
  else 1 - result / (norm1 * norm2').

Definition sparse_hellinger (a b : svec) : N :=
  let result := accum (nsqrt N) (vals (sparse_mul a b)) in
  let norm1 := accum idf (vals a) in
  let norm2' := accum idf (vals b) in
  let sqrt_norm_prod := nsqrt N (norm1 * norm2') in
  if (norm1 =? 0) && (norm2' =? 0) then 0
  else if (norm1 =? 0) || (norm2' =? 0) then 1
  else if sqrt_norm_prod <? result then 0
  else nsqrt N (1 - result / sqrt_norm_prod).

(* the three `dot_product` loops 478-487 *)
Definition sub_uncommon (common : list nat) (m : N) (sh : svec) (r0 : N) : N :=
  fold_left (fun r e => if memb (fst e) common then r else r - snd e * m) sh r0.

Definition correlation_core (early_one : bool) (common_of : svec -> svec -> svec -> list nat)
                            (a b : svec) (n : nat) : N :=
  match a, b with
  | [], [] => 0
  | _, _ =>
    if early_one && (match a with [] => true | _ => false end || match b with [] => true | _ => false end)
    then 1 else
    let mu_x := accum idf (vals a) / ofn n in
    let mu_y := accum idf (vals b) / ofn n in
    let sh1 := map_vals (fun v => v - mu_x) a in
    let sh2 := map_vals (fun v => v - mu_y) b in
    let nr1 := norm2 (vals sh1) in
    let nr2 := norm2 (vals sh2) in
    let norm1 := nsqrt N (nr1 * nr1 + of_Z N (Z.of_nat n - Z.of_nat (length a)) * (mu_x * mu_x)) in
    let norm2' := nsqrt N (nr2 * nr2 + of_Z N (Z.of_nat n - Z.of_nat (length b)) * (mu_y * mu_y)) in
    let prod := sparse_mul sh1 sh2 in
    let common := common_of a b prod in
    let d1 := accum idf (vals prod) in
    let d2 := sub_uncommon common mu_y sh1 d1 in
    let d3 := sub_uncommon common mu_x sh2 d2 in
    let dot := d3 + mu_x * mu_y * of_Z N (Z.of_nat n - n_union a b) in
    if (norm1 =? 0) && (norm2' =? 0) then 0
    else if dot =? 0 then 1
    else 1 - dot / (norm1 * norm2')
  end.

(* repaired: common_indices = set(arr_intersect(ind1, ind2)); no early return for a single empty row *)
Definition sparse_correlation (a b : svec) (n : nat) : N :=
  correlation_core false (fun a b _ => arr_intersect (inds a) (inds b)) a b n.
(* as in the unrepaired source (440-497): common_indices = set(dot_prod_inds); `elif … : return 1.0` *)
Definition sparse_correlation_orig (a b : svec) (n : nat) : N :=
  correlation_core true (fun _ _ prod => inds prod) a b n.

(* ---- dense counterparts (textbook, on equal-length lists) ------------------------------------------ *)
Fixpoint zipw (f : N -> N -> N) (x y : list N) : list N :=
  match x, y with
  | u :: x', v :: y' => f u v :: zipw f x' y'
  | _, _ => []
  end.
Fixpoint ssum (l : list N) : N := match l with [] => 0 | v :: r => v + ssum r end.
Fixpoint count2 (p : N -> N -> bool) (x y : list N) : nat :=
  match x, y with
  | u :: x', v :: y' => (if p u v then 1 else 0) + count2 p x' y'
  | _, _ => O
  end.
Definition ntt (x y : list N) : nat := count2 (fun u v => nz u && nz v) x y.
Definition nneq (x y : list N) : nat := count2 (fun u v => xorb (nz u) (nz v)) x y.
Definition nor (x y : list N) : nat := count2 (fun u v => nz u || nz v) x y.

Definition dense_euclidean (x y : list N) : N := nsqrt N (ssum (zipw (fun u v => sq (u - v)) x y)).
Definition dense_manhattan (x y : list N) : N := ssum (zipw (fun u v => nabs N (u - v)) x y).
Definition dense_chebyshev (x y : list N) : N := fold_left nmax (zipw (fun u v => nabs N (u - v)) x y) 0.
Definition dense_minkowski (p : N) (x y : list N) : N :=
  npow N (ssum (zipw (fun u v => npow N (nabs N (u - v)) p) x y)) (1 / p).
Definition dense_hamming (x y : list N) : N := ofn (count2 (fun u v => negb (u =? v)) x y) / ofn (length x).
Definition dense_canberra (x y : list N) : N :=
  ssum (zipw (fun u v => if 0 <? nabs N u + nabs N v then nabs N (u - v) / (nabs N u + nabs N v) else 0) x y).
Definition dense_braycurtis (x y : list N) : N :=
  let d := ssum (zipw (fun u v => nabs N (u + v)) x y) in
  if 0 <? d then ssum (zipw (fun u v => nabs N (u - v)) x y) / d else 0.
Definition dense_jaccard (x y : list N) : N :=
  if Nat.eqb (nor x y) O then 0 else (ofn (nor x y) - ofn (ntt x y)) / ofn (nor x y).
Definition dense_matching (x y : list N) : N := ofn (nneq x y) / ofn (length x).
Definition dense_dice (x y : list N) : N :=
  if Nat.eqb (nneq x y) O then 0 else ofn (nneq x y) / (two * ofn (ntt x y) + ofn (nneq x y)).
Definition dense_kulsinski (x y : list N) : N :=
  if Nat.eqb (nneq x y) O then 0 else
  (ofn (nneq x y) - ofn (ntt x y) + ofn (length x)) / (ofn (nneq x y) + ofn (length x)).
Definition dense_rogerstanimoto (x y : list N) : N := (two * ofn (nneq x y)) / (ofn (length x) + ofn (nneq x y)).
Definition dense_russellrao (x y : list N) : N :=
  if Nat.eqb (ntt x y) (countb nz x) && Nat.eqb (ntt x y) (countb nz y) then 0
  else (ofn (length x) - ofn (ntt x y)) / ofn (length x).
Definition dense_sokalmichener (x y : list N) : N := (two * ofn (nneq x y)) / (ofn (length x) + ofn (nneq x y)).
Definition dense_sokalsneath (x y : list N) : N :=
  if Nat.eqb (nneq x y) O then 0 else ofn (nneq x y) / (half * ofn (ntt x y) + ofn (nneq x y)).
Definition dense_cosine (x y : list N) : N :=
  let r := ssum (zipw (mul N) x y) in let nx := ssum (map sq x) in let ny := ssum (map sq y) in
  if (nx =? 0) && (ny =? 0) then 0 else if (nx =? 0) || (ny =? 0) then 1 else 1 - r / nsqrt N (nx * ny).
Definition dense_hellinger (x y : list N) : N :=
  let r := ssum (zipw (fun u v => nsqrt N (u * v)) x y) in let lx := ssum x in let ly := ssum y in
  if (lx =? 0) && (ly =? 0) then 0 else if (lx =? 0) || (ly =? 0) then 1 else nsqrt N (1 - r / nsqrt N (lx * ly)).
Definition dense_correlation (x y : list N) : N :=
  let mx := ssum x / ofn (length x) in let my := ssum y / ofn (length x) in
  let nx := ssum (map (fun u => sq (u - mx)) x) in let ny := ssum (map (fun v => sq (v - my)) y) in
  let dot := ssum (zipw (fun u v => (u - mx) * (v - my)) x y) in
  if (nx =? 0) && (ny =? 0) then 0 else if dot =? 0 then 1 else 1 - dot / nsqrt N (nx * ny).

End Sparse.

(* Verdict functions (binary64 / Z) for the C07 correspondence. *)
From Coq Require Import List ZArith Bool PrimFloat.
From UV Require Import Num FloatFns FNum M_sgd.
Import ListNotations.
Open Scope float_scope.

Definition fmax (a b : float) : float := if a <? b then b else a.

Fixpoint maxdiff (a b : list float) : float :=
  match a, b with
  | x :: a', y :: b' => fmax (if f_isnan x || f_isnan y then (if f_isnan x && f_isnan y then 0 else infinity) else abs (x - y) / (1 + abs y)) (maxdiff a' b')
  | [], [] => 0
  | _, _ => infinity
  end.
Fixpoint maxdiff2 (a b : list (list float)) : float :=
  match a, b with
  | x :: a', y :: b' => fmax (maxdiff x y) (maxdiff2 a' b')
  | [], [] => 0
  | _, _ => infinity
  end.

Definition rng_eqb (a b : rng3) : bool :=
  let '(a0, a1, a2) := a in let '(b0, b1, b2) := b in (a0 =? b0)%Z && (a1 =? b1)%Z && (a2 =? b2)%Z.
Fixpoint all_rng (a b : list rng3) : bool :=
  match a, b with
  | x :: a', y :: b' => rng_eqb x y && all_rng a' b'
  | [], [] => true
  | _, _ => false
  end.

Record edge_f := mkEdgeF { ef_head : nat; ef_tail : nat; ef_eps : float; ef_epns : float }.

Record epoch_case := mkCase {
  c_a : float; c_b : float; c_gamma : float; c_alpha : float; c_n : float; c_nv : Z;
  c_move : bool; c_shared : bool;
  c_edges : list edge_f;
  c_H : list (list float); c_T : list (list float);
  c_next : list float; c_nneg : list float; c_rng : list rng3;
  (* implementation, after the epoch *)
  o_H : list (list float); o_T : list (list float);
  o_next : list float; o_nneg : list float; o_rng : list rng3
}.

Definition to_edge (e : edge_f) : edge FNum := mkEdge FNum (ef_head e) (ef_tail e) (ef_eps e) (ef_epns e).

(* returns (code, max position deviation * 1e9): code -1 = agree *)
Definition verdict_epoch (ptol ctol : float) (c : epoch_case) : Z * Z :=
  let s0 := mkSt FNum (mkEmb FNum (c_H c) (c_T c) (c_shared c)) (c_next c) (c_nneg c) (c_rng c) in
  let s1 := epoch FNum (c_a c) (c_b c) (c_gamma c) (c_alpha c) (c_move c) (c_nv c) (c_n c) (map to_edge (c_edges c)) s0 in
  let dH := maxdiff2 (eH FNum (s_emb FNum s1)) (o_H c) in
  let dT := if c_shared c then 0 else maxdiff2 (eT FNum (s_emb FNum s1)) (o_T c) in
  let dev := f_to_Z (fmax dH dT * 1e9) in
  let code :=
    if negb (all_rng (s_rng FNum s1) (o_rng c)) then 1%Z else
    if negb (maxdiff (s_next FNum s1) (o_next c) <=? ctol) then 2%Z else
    if negb (maxdiff (s_nneg FNum s1) (o_nneg c) <=? ctol) then 3%Z else
    if negb (dH <=? ptol) then 4%Z else
    if negb (dT <=? ptol) then 5%Z else (-1)%Z in
  (code, dev).

(* tau_rand_int sequences: n draws from a state *)
Fixpoint draws (n : nat) (st : rng3) : list Z :=
  match n with O => [] | S n' => let '(st', r) := tau_rand_int st in r :: draws n' st' end.

(* generic optimiser with the Euclidean output metric: same case record as the Euclidean kernel *)
From UV Require Import M_sgdg.
Definition verdict_gepoch (ptol ctol : float) (c : epoch_case) : Z * Z :=
  let s0 := mkSt FNum (mkEmb FNum (c_H c) (c_T c) (c_shared c)) (c_next c) (c_nneg c) (c_rng c) in
  let s1 := gepoch FNum (euclidean_grad FNum) (c_a c) (c_b c) (c_gamma c) (c_alpha c) (c_move c) (c_nv c) (c_n c) (map to_edge (c_edges c)) s0 in
  let dH := maxdiff2 (eH FNum (s_emb FNum s1)) (o_H c) in
  let dT := if c_shared c then 0 else maxdiff2 (eT FNum (s_emb FNum s1)) (o_T c) in
  let dev := f_to_Z (fmax dH dT * 1e9) in
  let code :=
    if negb (all_rng (s_rng FNum s1) (o_rng c)) then 1%Z else
    if negb (maxdiff (s_next FNum s1) (o_next c) <=? ctol) then 2%Z else
    if negb (maxdiff (s_nneg FNum s1) (o_nneg c) <=? ctol) then 3%Z else
    if negb (dH <=? ptol) then 4%Z else
    if negb (dT <=? ptol) then 5%Z else (-1)%Z in
  (code, dev).

(* parametric replication: weights (float32 values) -> kept flags and repeat counts *)
Definition verdict_replication (c : float * list float * list bool * list Z) : Z :=
  let '(ne, ws, kf, reps) := c in
  let wmax := fold_left (fun m w => if m <? w then w else m) ws 0 in
  let thr := f_round32 (wmax / ne) in
  let km := map (fun w => negb (w <? thr)) ws in
  if negb (forallb (fun p => Bool.eqb (fst p) (snd p)) (combine km kf)) then 1%Z else
  let rm := map (fun w => f_to_Z (f_round32 (ne * w))) (map fst (filter snd (combine ws km))) in
  if negb (forallb (fun p => (fst p =? snd p)%Z) (combine rm reps)) || negb (Nat.eqb (length rm) (length reps)) then 2%Z else (-1)%Z.

(* C06: what makes a seeded fit independent of the schedule — the selection logic
   (umap_.py:1948-1954 n_jobs resolution, 2897/3168/3517/3584 parallel = (random_state is None),
   layouts.py:222-235 kernel choice), the per-vertex RNG derivation (layouts.py:367-369, in M_sgd.v),
   and the shape of the prange loops that remain parallel (utils.py:14-37, 101-126; distances.py:1251-1270;
   aligned_umap.py:16-26): every iteration writes only its own cell(s). *)
From Coq Require Import List ZArith Bool Arith.
From UV Require Import M_sgd.
Import ListNotations.

Definition resolve_jobs (seeded : bool) (n_jobs : Z) : option Z :=
  if (n_jobs <? -1)%Z || (n_jobs =? 0)%Z then None            (* ValueError *)
  else if negb (n_jobs =? 1)%Z && seeded then Some 1%Z        (* overridden with a warning *)
  else Some n_jobs.

Definition parallel_flag (seeded : bool) : bool := negb seeded.

Inductive kernel := Serial | Parallel.
Definition kernel_of (parallel : bool) : kernel := if parallel then Parallel else Serial.

(* a prange loop whose iteration i writes exactly cell i with a value computed from the inputs only,
   executed in an arbitrary order *)
Definition par_for {A} (order : list nat) (body : nat -> A) (init : list A) : list A :=
  fold_left (fun arr i => upd arr i (body i)) order init.

(* chunked_parallel_special_metric: chunk c owns rows [c*s, min(c*s+s, R)) *)
Definition chunk_lo (c s : nat) : nat := c * s.
Definition chunk_hi (c s R : nat) : nat := Nat.min (c * s + s) R.
Definition in_chunk (c s R i : nat) : bool := Nat.leb (chunk_lo c s) i && Nat.ltb i (chunk_hi c s R).

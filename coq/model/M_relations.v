(* C19: expand_relations (umap/aligned_umap.py:43-82).  Executable definitions only.

   A relation dictionary is the list of its (key, value) items in iteration order (keys are distinct
   in a Python dict); `-1` ("no related sample") is [None].  Out-of-range list indexing (IndexError)
   and the empty-`max()` ValueError are kept as explicit outcomes, not totalised away.

   [expand_gen true]  = the repaired bound   `if i + j + 1 >  len(relation_dicts)`
   [expand_gen false] = the original bound   `if i + j + 1 >= len(relation_dicts)`           *)
From Coq Require Import List Arith Bool.
Import ListNotations.

Definition dict := list (nat * nat).
Definition cell := option nat.                       (* None = -1 *)

(* d.get(k)  (None = absent) *)
Fixpoint get (d : dict) (k : nat) : option nat :=
  match d with
  | [] => None
  | (k', v) :: r => if Nat.eqb k k' then Some v else get r k
  end.

(* invert_dict: {value: key for key, value in d.items()} — a later item overwrites an earlier one *)
Definition invert (d : dict) : dict := rev (map (fun kv => (snd kv, fst kv)) d).

(* d.get(n, -1) applied to an entry of `mapping` (n = -1 is never a key) *)
Definition relstep (d : dict) (m : cell) : cell :=
  match m with Some n => get d n | None => None end.

(* max(d.keys()), max(d.values()) ; max over all dicts, + 1 *)
Definition dmax (d : dict) : nat :=
  fold_right (fun kv m => Nat.max (Nat.max (fst kv) (snd kv)) m) 0 d.
Definition max_n_samples (ds : list dict) : nat :=
  S (fold_right (fun d m => Nat.max (dmax d) m) 0 ds).

Definition is_empty {A : Type} (l : list A) : bool := match l with [] => true | _ => false end.

Fixpoint mapM {A B : Type} (f : A -> option B) (l : list A) : option (list B) :=
  match l with
  | [] => Some []
  | a :: r => match f a, mapM f r with
              | Some b, Some bs => Some (b :: bs)
              | _, _ => None
              end
  end.

(* for k in range(cnt): mapping = relation_dicts[i + k].get(mapping, -1)       (lines 63-67)
   outer None = IndexError *)
Fixpoint fwd_chain (ds : list dict) (i cnt : nat) (m : cell) {struct cnt} : option cell :=
  match cnt with
  | 0 => Some m
  | S c => match nth_error ds i with
           | None => None
           | Some d => fwd_chain ds (S i) c (relstep d m)
           end
  end.

(* for k in range(0, j - 1, -1): mapping = reverse_relation_dicts[i + k - 1].get(mapping, -1)
   (lines 75-79) with cnt = 1 - j steps using rs[i-1], rs[i-2], ...; the guard of line 72 keeps every
   index non-negative (a negative one would wrap around in Python; here: None) *)
Fixpoint bwd_chain (rs : list dict) (i cnt : nat) (m : cell) {struct cnt} : option cell :=
  match cnt with
  | 0 => Some m
  | S c => match i with
           | 0 => None
           | S i' => match nth_error rs i' with
                     | None => None
                     | Some d => bwd_chain rs i' c (relstep d m)
                     end
           end
  end.

(* line 60: true = the row is filled with -1 *)
Definition fwd_guard (repaired : bool) (i j len : nat) : bool :=
  if repaired then Nat.ltb len (i + j + 1) else Nat.leb len (i + j + 1).

(* j = 0 .. w-1, written to column w + j + 1 *)
Definition fwd_row (repaired : bool) (ds : list dict) (ns i j : nat) : option (list cell) :=
  if fwd_guard repaired i j (length ds) then Some (repeat None ns)
  else mapM (fun n => fwd_chain ds i (j + 1) (Some n)) (seq 0 ns).

(* j = -t, t = 0 .. w-1, written to column w - t - 1; line 72: i + j - 1 < 0 *)
Definition bwd_row (rs : list dict) (ns i t : nat) : option (list cell) :=
  if Nat.leb i t then Some (repeat None ns)
  else mapM (fun n => bwd_chain rs i (t + 1) (Some n)) (seq 0 ns).

(* result[i]: columns 0..w-1 backward (column w-1-t holds t), column w untouched (-1),
   columns w+1..2w forward (column w+1+j holds j) *)
Definition dataset_rows (repaired : bool) (ds rs : list dict) (w ns i : nat) : option (list (list cell)) :=
  match mapM (bwd_row rs ns i) (seq 0 w), mapM (fwd_row repaired ds ns i) (seq 0 w) with
  | Some b, Some f => Some (rev b ++ [repeat None ns] ++ f)
  | _, _ => None
  end.

Inductive res (A : Type) : Type := Ok (a : A) | ValueErr | IndexErr.
Arguments Ok {A} a.
Arguments ValueErr {A}.
Arguments IndexErr {A}.

Definition tensor := list (list (list cell)).

Definition expand_gen (repaired : bool) (ds : list dict) (w : nat) : res tensor :=
  if is_empty ds || existsb is_empty ds then ValueErr      (* max() of an empty sequence *)
  else
    let ns := max_n_samples ds in
    let rs := map invert ds in
    match mapM (dataset_rows repaired ds rs w ns) (seq 0 (length ds + 1)) with
    | Some t => Ok t
    | None => IndexErr
    end.

Definition expand := expand_gen true.
Definition expand_orig := expand_gen false.

(* result[i, c, k]; outer None = outside the array *)
Definition entry (t : tensor) (i c k : nat) : option cell :=
  match nth_error t i with
  | None => None
  | Some rows => match nth_error rows c with
                 | None => None
                 | Some row => nth_error row k
                 end
  end.

(* ---- the specification the property text speaks about ---------------------------------------- *)
Definition bindo (m : option nat) (f : nat -> option nat) : option nat :=
  match m with Some x => f x | None => None end.

(* follow relations i, i+1, ..., i+j-1 starting from sample k of dataset i *)
Fixpoint compose_fwd (ds : list dict) (i j k : nat) : option nat :=
  match j with
  | 0 => Some k
  | S j' => bindo (compose_fwd ds i j' k) (get (nth (i + j') ds []))
  end.

(* the sample a relation maps onto v (first such item) *)
Fixpoint get_inv (d : dict) (v : nat) : option nat :=
  match d with
  | [] => None
  | (k, v') :: r => if Nat.eqb v v' then Some k else get_inv r v
  end.

(* follow the inverses of relations i-1, i-2, ..., i-j starting from sample m of dataset i;
   [inv d v] = the sample that d relates to v *)
Fixpoint compose_bwd_with (inv : dict -> nat -> option nat) (ds : list dict) (i j m : nat) : option nat :=
  match j with
  | 0 => Some m
  | S j' => bindo (compose_bwd_with inv ds i j' m) (inv (nth (i - S j') ds []))
  end.
Definition compose_bwd := compose_bwd_with get_inv.

(* a dictionary (distinct keys) that is injective (distinct values) *)
Definition injective (d : dict) : Prop := NoDup (map fst d) /\ NoDup (map snd d).

(* Verdict functions (binary64 instance) for the C02 correspondence. *)
From Coq Require Import List ZArith Bool PrimFloat.
From UV Require Import Num FloatFns FNum M_union.
Import ListNotations.
Open Scope float_scope.

Definition pairs (n : nat) : list (nat * nat) :=
  flat_map (fun i => map (fun j => (i, j)) (seq 0 n)) (seq 0 n).

(* first (i,j) at which model graph and implementation graph disagree (tolerance atol), or where the
   implementation stores an entry the model says is zero / omits one the model says is non-zero *)
Definition check_graph (atol r : float) (n : nat) (A G : coo FNum) : option (nat * nat) :=
  find (fun p => let '(i, j) := p in
          let m := graph FNum r A i j in
          let g := lookup FNum G i j in
          (* an entry the model says is below the float32 range may legitimately be absent (underflow to 0, eliminated) *)
          negb (f_close 0 atol m g) || ((g =? 0) && (0x1p-100 <? abs m)) || ((m =? 0) && negb (g =? 0)))
       (pairs n).

Definition stored_zero (G : coo FNum) : bool := existsb (fun e => snd e =? 0) G.

Definition verdict_C02 (atol : float) (c : float * nat * coo FNum * coo FNum) : Z :=
  let '(r, n, A, G) := c in
  if stored_zero G then (-2)%Z else
  match check_graph atol r n A G with
  | None => (-1)%Z
  | Some (i, j) => Z.of_nat (i * n + j)
  end.

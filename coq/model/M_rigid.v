(* C19: the Procrustes pre-alignment step (umap/aligned_umap.py:33-40), MathComp style.
   Definitions only.  The SVD is an oracle: it is assumed to return orthogonal factors U, V. *)
From mathcomp Require Import all_ssreflect all_algebra.
Set Implicit Arguments.
Unset Strict Implicit.
Unset Printing Implicit Defensive.
Import GRing.Theory.
Local Open Scope ring_scope.

Section Rigid.
Variable F : comRingType.
Variable d : nat.

(* R Rᵀ = I *)
Definition orthogonal (R : 'M[F]_d) : Prop := R *m R^T = 1%:M.

(* line 38: R = U @ V *)
Definition procrustes_rot (U V : 'M[F]_d) : 'M[F]_d := U *m V.

(* line 40: embedding_to_align @ R (one sample per row) *)
Definition align (n : nat) (E : 'M[F]_(n, d)) (R : 'M[F]_d) : 'M[F]_(n, d) := E *m R.

(* all inner products between the rows of X and the rows of Y *)
Definition gram (n m : nat) (X : 'M[F]_(n, d)) (Y : 'M[F]_(m, d)) : 'M[F]_(n, m) := X *m Y^T.

(* squared euclidean distance between two samples *)
Definition sqdist (x y : 'rV[F]_d) : F := ((x - y) *m (x - y)^T) 0 0.

End Rigid.

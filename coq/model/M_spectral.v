(* C15: spectral initialisation (umap/spectral.py).
   _spectral_layout 463-546: degrees / normalised Laplacian / eigen-solver (external) / column selection;
   multi_component_layout 209-260: meta embedding for <= 2*dim components, per-component placement and
   the write-back result[component_labels == label] = block.
   Executable definitions only.  Matrices and vectors are functions on indices below a size n. *)
From Coq Require Import List ZArith Bool Arith.
From UV Require Import Num.
Import ListNotations NumNotations.

Section Spectral.
Context (N : Num).
Local Open Scope num_scope.
Notation "0" := (zero N) : num_scope.
Notation "1" := (one N) : num_scope.

Definition matrix := nat -> nat -> N.
Definition vector := nat -> N.

(* left-to-right accumulation f 0 + f 1 + ... + f (n-1) *)
Fixpoint sum_n (f : nat -> N) (n : nat) : N :=
  match n with O => 0 | S m => sum_n f m + f m end.

(* line 478: sqrt_deg = np.sqrt(graph.sum(axis=0)) -- column sums *)
Definition degree (n : nat) (A : matrix) (j : nat) : N := sum_n (fun i => A i j) n.
Definition sqrt_deg (n : nat) (A : matrix) (j : nat) : N := nsqrt N (degree n A j).
(* line 484: D = spdiags(1.0 / sqrt_deg) *)
Definition dinv (n : nat) (A : matrix) (j : nat) : N := 1 / sqrt_deg n A j.
Definition delta (i j : nat) : N := if Nat.eqb i j then 1 else 0.
(* line 485: L = I - D * graph * D, entrywise; [dv] is the diagonal of D *)
Definition laplacian_with (dv : vector) (A : matrix) : matrix :=
  fun i j => delta i j - (dv i * A i j) * dv j.
Definition laplacian (n : nat) (A : matrix) : matrix := laplacian_with (dinv n A) A.

Definition mulmv (n : nat) (M : matrix) (x : vector) : vector := fun i => sum_n (fun j => M i j * x j) n.
Definition dot (n : nat) (x y : vector) : N := sum_n (fun i => x i * y i) n.
Definition col (V : matrix) (c : nat) : vector := fun i => V i c.

(* line 545: order = np.argsort(eigenvalues)[1:k] -- ascending, ties keep the lower position first *)
Fixpoint insert_by (ev : nat -> N) (x : nat) (l : list nat) : list nat :=
  match l with
  | [] => [x]
  | y :: l' => if leb N (ev x) (ev y) then x :: l else y :: insert_by ev x l'
  end.
Definition argsort (evals : list N) : list nat :=
  fold_right (insert_by (fun i => nth i evals 0)) [] (seq 0 (length evals)).
Definition select_cols (evals : list N) (k : nat) : list nat := firstn (k - 1) (skipn 1 (argsort evals)).

(* Repaired selection (proposed fix C15_select_nontrivial.diff):
     order = np.argsort(eigenvalues)
     cosines = np.abs(sqrt_deg @ eigenvectors[:, order]) / np.linalg.norm(sqrt_deg)
     if cosines.max() > 0.5: order = np.delete(order, cosines.argmax())
     return eigenvectors[:, order[:dim]]
   the trivial eigenvector (parallel to sqrt_deg) is dropped wherever it is, and only if the solver returned it *)
Definition norm (n : nat) (x : vector) : N := nsqrt N (dot n x x).
Definition cosine (n : nat) (s v : vector) : N := nabs N (dot n s v) / norm n s.
(* np.argmax: position of the first maximum *)
Fixpoint argmax_from (l : list N) (i : nat) (best : N) (bi : nat) : nat :=
  match l with
  | [] => bi
  | x :: l' => if ltb N best x then argmax_from l' (S i) x i else argmax_from l' (S i) best bi
  end.
Definition argmax (l : list N) : nat := match l with [] => O | x :: l' => argmax_from l' 1 x O end.
Definition remove_nth {X : Type} (p : nat) (l : list X) : list X := firstn p l ++ skipn (S p) l.
Definition half : N := 1 / (1 + 1).
Definition drop_trivial (cosines : list N) (order : list nat) : list nat :=
  let p := argmax cosines in
  if ltb N half (nth p cosines 0) then remove_nth p order else order.
Definition select_nontrivial (n : nat) (s : vector) (evals : list N) (V : matrix) (dim : nat) : list nat :=
  let order := argsort evals in
  firstn dim (drop_trivial (map (fun c => cosine n s (col V c)) order) order).

(* lines 489-546 for a connected graph: the eigen-solver (ARPACK / LOBPCG) is external: a section variable.
   solve L n k = (eigenvalues : list of length k, eigenvectors : n x k matrix) *)
Variable solve : matrix -> nat -> nat -> list N * matrix.
Definition spectral_connected (n : nat) (A : matrix) (dim : nat) : list vector :=
  let k := S dim in                                   (* k = dim + 1 *)
  let '(evals, evecs) := solve (laplacian n A) n k in
  map (col evecs) (select_cols evals k).              (* eigenvectors[:, order], order = argsort[1:k] *)
(* the same path with the repaired selection *)
Definition spectral_connected_nt (n : nat) (A : matrix) (dim : nat) : list vector :=
  let '(evals, evecs) := solve (laplacian n A) n (S dim) in
  map (col evecs) (select_nontrivial n (sqrt_deg n A) evals evecs dim).

(* ---- multi_component_layout ------------------------------------------------------------------- *)
Definition row := list N.
(* lines 222-224: k = ceil(n_components / 2); base = [eye(k) | 0]; meta = vstack([base, -base])[:n_components] *)
Definition unit_row (dim i : nat) : row := map (fun c => if Nat.eqb c i then 1 else 0) (seq 0 dim).
Definition meta_embedding (ncomp dim : nat) : list row :=
  let k := Nat.div2 (S ncomp) in
  let base := map (unit_row dim) (seq 0 k) in
  firstn ncomp (base ++ map (map (neg N)) base).

Fixpoint sqdist (x y : row) : N :=
  match x, y with
  | a :: x', b :: y' => (a - b) * (a - b) + sqdist x' y'
  | _, _ => 0
  end.
Definition eucl (x y : row) : N := nsqrt N (sqdist x y).
Definition meta_dists (meta : list row) (c : nat) : list N := map (eucl (nth c meta [])) meta.

(* line 231: data_range = distances[distances > 0.0].min() / 2.0 ; None: empty selection (numpy raises ValueError) *)
Fixpoint min_pos (ds : list N) : option N :=
  match ds with
  | [] => None
  | d :: ds' =>
      match min_pos ds' with
      | None => if ltb N 0 d then Some d else None
      | Some m => if ltb N 0 d then (if ltb N d m then Some d else Some m) else Some m
      end
  end.
Definition data_range (ds : list N) : option N :=
  match min_pos ds with Some m => Some (m / (1 + 1)) | None => None end.

(* line 233 *)
Definition small_component (m dim : nat) : bool := Nat.ltb m (2 * dim) || Nat.leb m (dim + 1).

Definition nmax (a b : N) : N := if ltb N a b then b else a.
Definition maxabs (blk : list row) : N := fold_left (fun m r => fold_left (fun m x => nmax m (nabs N x)) r m) blk 0.
Definition vadd (x y : row) : row := map (fun p => fst p + snd p) (combine x y).

(* lines 234-258: a small component is the solver-free uniform block shifted to its centre; otherwise the
   component's own spectral block is rescaled to max-abs = data_range and shifted *)
Definition place_block (small : bool) (range : N) (centre : row) (blk : list row) : list row :=
  if small then map (fun r => vadd r centre) blk
  else let e := range / maxabs blk in map (fun r => vadd (map (fun x => x * e) r) centre) blk.

End Spectral.

(* result[component_labels == label] = block, label = 0 .. n_components-1 (lines 226-258).
   The model keeps, per vertex, the list of rows written to it (the array keeps the last one).
   A block shorter than its component cannot occur in NumPy (shape mismatch raises); the theorems assume
   length (blocks c) = number of vertices labelled c. *)
Fixpoint write_rows {X : Type} (res : list (list X)) (labels : list nat) (c : nat) (blk : list X) : list (list X) :=
  match res, labels with
  | r :: res', l :: labels' =>
      if Nat.eqb l c then
        match blk with
        | b :: blk' => (r ++ [b]) :: write_rows res' labels' c blk'
        | [] => r :: write_rows res' labels' c []
        end
      else r :: write_rows res' labels' c blk
  | _, _ => res
  end.
Definition assign_components {X : Type} (labels : list nat) (ncomp : nat) (blocks : nat -> list X) : list (list X) :=
  fold_left (fun res c => write_rows res labels c (blocks c)) (seq 0 ncomp) (repeat [] (length labels)).
Definition count_label (labels : list nat) (c : nat) : nat := length (filter (Nat.eqb c) labels).
(* position of vertex v among the vertices carrying its label *)
Definition rank_in (labels : list nat) (v : nat) : nat := count_label (firstn v labels) (nth v labels O).

Section Multi.
Context (N : Num).
(* multi_component_layout: meta = centres (computed by [meta_embedding] when n_components <= 2*dim, otherwise the
   external component_layout); dists c = the pairwise_distances row of centre c; blocks c = what the
   random generator / the recursive _spectral_layout returned for component c.  None = NumPy raises. *)
Definition placed (dim : nat) (meta : list (row N)) (dists : nat -> list N) (blocks : nat -> list (row N)) (c : nat)
  : option (list (row N)) :=
  match data_range N (dists c) with
  | Some r => Some (place_block N (small_component (length (blocks c)) dim) r (nth c meta []) (blocks c))
  | None => None
  end.
Definition multi_layout (dim : nat) (labels : list nat) (ncomp : nat) (meta : list (row N))
           (dists : nat -> list N) (blocks : nat -> list (row N)) : option (list (list (row N))) :=
  if forallb (fun c => match placed dim meta dists blocks c with Some _ => true | None => false end) (seq 0 ncomp)
  then Some (assign_components labels ncomp
               (fun c => match placed dim meta dists blocks c with Some b => b | None => [] end))
  else None.
End Multi.

#!/usr/bin/env python3
"""tools/seedimport.py <PROP> <srcdir> <evalname> "<detected_by text>" : copy a confirmed candidate change into seeded/<PROP>_m<k>/"""
import json, os, re, shutil, sys
prop, src, name, det = sys.argv[1:5]
base = "/verif/seeded"
k = 1
while os.path.exists("%s/%s_m%d" % (base, prop, k)):
    k += 1
d = "%s/%s_m%d" % (base, prop, k)
os.makedirs(d)
for f in ("patch.diff", "demo.py", "notes.md"):
    shutil.copy(os.path.join(src, f), d)
ev = open("/tmp/se_out/%s.txt" % name).read()
notes = open(os.path.join(src, "notes.md")).read()
title = notes.strip().split("\n")[0].lstrip("# ").strip()
m = re.search(r"(?is)##\s*What is needed for it to manifest\s*\n(.*?)(\n## |\Z)", notes)
need = " ".join(m.group(1).split())[:600] if m else ""
head = os.popen("git -C /repo rev-parse --short HEAD").read().strip()
json.dump({"property": prop, "change": title, "needs_to_manifest": need, "base_commit": head,
           "ran": ["tools/seedeval.sh %s %s %s (demo on clean worktree: exit 0; demo on patched worktree: exit 1; ./check %s against the patched worktree)" % (prop, src, name, prop)],
           "check_output": [l for l in ev.split("\n") if re.search(r"VIOLATION|PASS|FAIL|broken:", l)][:12],
           "existing_tests": "see tests.json written by tools/seed_tests.sh (full baseline suite on a patched worktree); the sub-agent's own suite run is quoted in notes.md",
           "detected_by": det, "source": "fresh sub-agent (round 2/3) given only the property text and a scratch worktree"}, open(d + "/meta.json", "w"), indent=1)
print(d)

#!/usr/bin/env python3
"""Regenerate MANIFEST.json from the table below (keeps it schema-valid at all times)."""
import json, os
HERE = os.path.dirname(os.path.dirname(os.path.abspath(__file__)))
ALL = ["C%02d" % i for i in range(1, 21)]
# id -> (technique, level text, level note, design ref)
CLAIMED = {}
def claim(pid, technique, text, note, ref):
    CLAIMED[pid] = (technique, text, note, ref)

exec(open(os.path.join(HERE, "tools", "claims.py")).read())

checks = []
for pid in ALL:
    if pid not in CLAIMED:
        continue
    tech, text, note, ref = CLAIMED[pid]
    checks.append({
        "property_id": pid,
        "quick_cmd": "./check %s --tier quick" % pid,
        "thorough_cmd": "./check %s --tier thorough" % pid,
        "evidence_file": "/verif/evidence/%s.json" % pid,
        "replay_cmd_template": "./check %s --replay {path}" % pid,
        "engine": "coq-model+correspondence",
        "level_claimed": {"category": "proof", "text": text, "design_ref": ref},
        "level_note": note,
        "technique": tech,
    })
man = {
    "version": 1,
    "setup_cmd": "tools/build.sh",
    "hooks": {"guard": "UMAP_VERIF", "enable": "no source hooks are used: every observation point is a module-level function or public attribute (guard variable is unused)",
              "baseline_off_cmd": "cd /repo && /venv/bin/python -m pytest -ra -q -p no:cacheprovider --timeout=900 --continue-on-collection-errors",
              "source_commits": [], "add_only": True},
    "engines": [{"name": "coq-model+correspondence", "path": "/verif/coq + /verif/harness",
                 "serves_properties": sorted(CLAIMED),
                 "kind_free_text": "Rocq/Coq 8.16.1 theorems over hand-written Gallina models (R / Z instances) + per-run differential correspondence of the same model terms (binary64 PrimFloat / Z, vm_compute) against /repo's working tree + Python oracle search for failing inputs"}],
    "checks": checks,
    "not_applicable": [{"property_id": p, "reason": NA.get(p, "check not built yet (work in progress; see DESIGN.md section 9 build order)")} for p in ALL if p not in CLAIMED],
    "notes": "See DESIGN.md. Fix commits to /repo are recorded in known_findings.json (status fixed).",
}
json.dump(man, open(os.path.join(HERE, "MANIFEST.json"), "w"), indent=1)
print("MANIFEST.json: %d checks, %d not_applicable" % (len(checks), len(man["not_applicable"])))

#!/bin/bash
# Stranger's check of the Coq development: no admitted proofs, no declared axioms, no switched-off kernel checks.
cd "$(dirname "$0")/../coq"
bad=$(grep -rnE '\b(Admitted|admit|Axiom|Axioms|Parameter|Parameters|Conjecture|Admit Obligations|Unset Guard Checking|Unset Positivity Checking|Unset Universe Checking|bypass_check|type-in-type|impredicative-set)\b' --include='*.v' lib model thm prop link | grep -v '(\*.*\*)' )
hyp=$(awk 'FNR==1{depth=0} /^[[:space:]]*Section /{depth++} /^[[:space:]]*End /{if(depth>0)depth--} /^[[:space:]]*(Variable|Variables|Hypothesis|Hypotheses|Context)[[:space:](]/{if(depth==0)print FILENAME":"FNR": "$0}' $(find lib model thm prop link -name '*.v'))
if [ -n "$bad$hyp" ]; then echo "LINT FAILED"; echo "$bad"; echo "$hyp"; exit 1; fi
echo "lint ok: $(find lib model thm prop link -name '*.v' | wc -l) files, $(cat $(find prop -name '*.v') | grep -cE '^\s*(Theorem|Example|Corollary)') property statements"

#!/usr/bin/env python3
"""Rewrite the seeded-changes table of DESIGN.md (§10.5) from seeded/*/meta.json."""
import json, os, re, glob
HERE = os.path.dirname(os.path.dirname(os.path.abspath(__file__)))
rows = ["| seeded change | what it is | needs to manifest | caught by |", "|---|---|---|---|"]
for d in sorted(glob.glob(os.path.join(HERE, "seeded", "*"))):
    mp = os.path.join(d, "meta.json")
    if not os.path.exists(mp): continue
    m = json.load(open(mp))
    t = ""
    tp = os.path.join(d, "tests.json")
    if os.path.exists(tp):
        tj = json.load(open(tp)); extra = [f for f in tj.get("failed", []) if "sokalmichener" not in f]
        t = " (suite: %s%s)" % (tj.get("summary"), "; extra failures: %s" % extra if extra else "")
    rows.append("| %s | %s | %s | %s%s |" % (os.path.basename(d), m["change"][:150].replace("|", "/"), m["needs_to_manifest"].replace("|", "/"), m["detected_by"].replace("|", "/"), t))
p = os.path.join(HERE, "DESIGN.md"); s = open(p).read()
start = s.index("SEEDED_TABLE") if "SEEDED_TABLE_PLACEHOLDER" in s else None
table = "<!-- SEEDED_TABLE_BEGIN -->\n" + "\n".join(rows) + "\n<!-- SEEDED_TABLE_END -->"
if "SEEDED_TABLE_PLACEHOLDER" in s:
    s = s.replace("SEEDED_TABLE_PLACEHOLDER", table)
else:
    s = re.sub(r"<!-- SEEDED_TABLE_BEGIN -->.*?<!-- SEEDED_TABLE_END -->", lambda _: table, s, flags=re.S)
open(p, "w").write(s)
print(len(rows) - 2, "seeded changes listed")

#!/bin/bash
# tools/seed_tests.sh <seeded dir>... : run the baseline test suite on a scratch worktree with each seeded patch applied;
# writes <dir>/tests.json.  Never touches /repo itself.
for D in "$@"; do
  D=$(realpath $D)
  name=$(basename $D); WT=/tmp/seedtests_$name
  git -C /repo worktree add -q --detach $WT ${SEED_BASE:-HEAD} || continue
  if git -C $WT apply $D/patch.diff; then
    (cd $WT && NUMBA_NUM_THREADS=4 timeout 3000 /venv/bin/python -m pytest -q -p no:cacheprovider --timeout=900 --continue-on-collection-errors umap/tests > /tmp/seedtests_$name.log 2>&1)
    tail -3 /tmp/seedtests_$name.log | grep -E "passed|failed" > /tmp/seedtests_$name.sum
    python3 - "$D" "$name" <<'PY'
import json, re, sys
d, name = sys.argv[1], sys.argv[2]
log = open("/tmp/seedtests_%s.log" % name).read()
m = re.findall(r"(\d+) (passed|failed|skipped)", log.splitlines()[-1]) if log.strip() else []
failed = re.findall(r"^FAILED (\S+)", log, re.M)
json.dump({"summary": {k: int(v) for v, k in m}, "failed": failed, "baseline_always_fail": ["test_sokalmichener", "test_sparse_sokalmichener"],
           "command": "cd <worktree with patch> && python -m pytest -q -p no:cacheprovider --timeout=900 --continue-on-collection-errors umap/tests"},
          open(d + "/tests.json", "w"), indent=1)
PY
  else echo "patch does not apply: $D"; fi
  git -C /repo worktree remove --force $WT
done

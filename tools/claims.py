# Edited by hand; consumed by tools/mkmanifest.py
NA = {}
STD_NOTE = ("Trusted: Coq kernel + vm_compute; stdlib real-number axioms (sig_not_dec, sig_forall_dec, functional_extensionality_dep, classic) as printed by "
            "Print Assumptions; the hand-written model and the per-run correspondence harness (generated inputs, tolerance comparison computed inside Coq); "
            "software exp/ln/pow of lib/FloatFns.v on the evaluation leg; theorems are over R (no rounding analysis).")
claim("C02", "Coq proof (nra/lra over R) of the fuzzy-union algebra + vm_compute correspondence of graph(r,A) against fuzzy_simplicial_set / UMAP.fit",
      "Theorems C02_graph / C02_support / C02_positive hold for every strength matrix, every r in [0,1], every kNN table; the model term is evaluated in binary64 on the "
      "directed strengths the implementation produced and compared entrywise with the implementation's graph on every run; an independent Python oracle states the property on graph_.",
      STD_NOTE + " SciPy's float32 sparse arithmetic is observed, not modelled.", "DESIGN.md §6 C02")

# Edited by hand; consumed by tools/mkmanifest.py
NA = {}
STD_NOTE = ("Trusted: Coq kernel + vm_compute; stdlib real-number axioms (sig_not_dec, sig_forall_dec, functional_extensionality_dep, classic) as printed by "
            "Print Assumptions; the hand-written model and the per-run correspondence harness (generated inputs, tolerance comparison computed inside Coq); "
            "software exp/ln/pow of lib/FloatFns.v on the evaluation leg; theorems are over R (no rounding analysis).")
claim("C02", "Coq proof (nra/lra over R) of the fuzzy-union algebra + vm_compute correspondence of graph(r,A) against fuzzy_simplicial_set / UMAP.fit",
      "Theorems C02_graph / C02_support / C02_positive hold for every strength matrix, every r in [0,1], every kNN table; the model term is evaluated in binary64 on the "
      "directed strengths the implementation produced and compared entrywise with the implementation's graph on every run; an independent Python oracle states the property on graph_.",
      STD_NOTE + " SciPy's float32 sparse arithmetic is observed, not modelled.", "DESIGN.md §6 C02")
claim("C01", "Coq proof over R (order laws of exp-membership, bisection invariant by induction, homogeneity) + vm_compute correspondence of smooth_row/memberships against smooth_knn_dist/compute_membership_strengths",
      "Theorems C01_strengths, C01_local_connectivity, C01_bandwidth (positive, bounded, floored, tolerance-calibrated when the search stops), C01_psum (monotone total), C01_scale hold for all rows, k, local_connectivity and scales; "
      "the same Gallina terms run in binary64 on generated kNN tables (ties, duplicates, inf entries, scales 1e-4..1e6) and must reproduce rho and every strength of the implementation; the float64 oracle states the property (incl. calibration to 1e-3 and scale invariance) on the implementation.",
      STD_NOTE + " Convergence of the 64-step search to the tolerance band is observed (oracle), not proved; rows whose rho would be read from an infinite entry are checked by the oracle only.", "DESIGN.md §6 C01")
claim("C07", "Coq proof over R/Z (gradient-coefficient identities via Rpower, clip bound, linear decay, frame by induction over edges and epochs, visit-count invariant, generator range) + vm_compute correspondence of the epoch model against the jitted single-epoch kernel and of the schedule against optimize_layout_euclidean",
      "Theorems C07_step/C07_signs (coefficients are the UMAP gradient terms), C07_clip (every move <= 4 alpha), C07_alpha, C07_frame (reference layout never written when move_other=false, all graphs/epochs), C07_due, C07_count/C07_weak/C07_period (visits = floor((N-1)/p), p = w_max/w; weak edges never used and pruned), C07_negative_vertex. "
      "The same model is executed in binary64/Z against the real kernel epoch by epoch (RNG states and draw counts exact, clocks 1e-9, positions 1e-3), whole runs are replayed under the model-computed schedule and must be bit-identical; a float64 textbook update is the independent oracle.",
      STD_NOTE + " The visit-count theorem is about the isolated clock recursion `visits` (same expression as edge_step's clock update); optimize_layout_generic, the parallel kernel and the parametric replication are not modelled.", "DESIGN.md §6 C07")

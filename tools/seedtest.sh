#!/bin/bash
# tools/seedtest.sh <PROP> <dir with patch.diff demo.py> [check ids...]  — confirm a seeded change and run checks against it
# Uses a scratch worktree (/tmp/seedwt) at /repo's HEAD; never touches /repo itself.
set -u
PROP=$1; D=$(realpath $2); shift 2; CHECKS=${@:-$PROP}
WT=/tmp/seedwt
if [ ! -d $WT ]; then git -C /repo worktree add -q --detach $WT HEAD; fi
git -C $WT checkout -q --detach $(git -C /repo rev-parse HEAD); git -C $WT checkout -q -- .
echo "== $D"
PYTHONPATH=$WT timeout 1200 /venv/bin/python $D/demo.py > /tmp/seed_demo_clean.out 2>&1; echo "demo on clean tree: exit $?"
if ! git -C $WT apply $D/patch.diff; then echo "PATCH DOES NOT APPLY"; exit 2; fi
PYTHONPATH=$WT timeout 1200 /venv/bin/python $D/demo.py > /tmp/seed_demo_patched.out 2>&1; echo "demo on patched tree: exit $?"
for c in $CHECKS; do
  VERIF_REPO=$WT /verif/check $c 2>&1 | grep -E "VIOLATION|KNOWN-FINDING|PASS|FAIL" | cut -c1-160
done
git -C $WT checkout -q -- .

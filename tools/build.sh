#!/bin/bash
# Full .vo build of the Coq development (never -vos).  Usage: tools/build.sh [make targets]
set -e
cd "$(dirname "$0")/../coq"
{ cat _CoqProject.head; find lib model thm prop -name '*.v' | LC_ALL=C sort; } > _CoqProject.new
if ! cmp -s _CoqProject.new _CoqProject 2>/dev/null || [ ! -f Makefile.coq ]; then
  mv _CoqProject.new _CoqProject
  coq_makefile -f _CoqProject -o Makefile.coq >/dev/null
else
  rm -f _CoqProject.new
fi
exec 9>.build.lock; flock 9
timeout ${VERIF_BUILD_TIMEOUT:-3000} make -f Makefile.coq -j${VERIF_JOBS:-16} "$@"
# translation tie: regenerate Gallina from the current source and (re)check the link theorems (cached by content)
if [ $# -eq 0 ] && [ -z "${VERIF_NO_LINKWARM:-}" ]; then
  flock -u 9
  (cd ../harness && PYTHONPATH=. timeout 1800 /venv/bin/python -m vp.link) || true
fi

#!/bin/bash
# tools/seedeval.sh <PROP> <dir with patch.diff demo.py> <name> [extra check ids...]
# Confirms a candidate seeded change in its own scratch worktree (/tmp/se_<name>): demo on clean tree (want exit 0), demo on
# patched tree (want exit 1), the property's check against the patched tree, then the baseline test suite on the patched tree.
# Output: /tmp/se_out/<name>.txt (+ .suite.log).  Never touches /repo itself.
set -u
PROP=$1; D=$(realpath $2); NAME=$3; shift 3; CHECKS="$PROP $@"
WT=/tmp/se_$NAME; OUT=/tmp/se_out/$NAME.txt; mkdir -p /tmp/se_out
git -C /repo worktree remove --force $WT 2>/dev/null; rm -rf $WT
git -C /repo worktree add -q --detach $WT ${SEED_BASE:-HEAD} || exit 2
{
echo "== $NAME ($D)"
PYTHONPATH=$WT PYTHONHASHSEED=0 timeout 1500 /venv/bin/python $D/demo.py > /tmp/se_out/$NAME.demo_clean.out 2>&1; echo "demo on clean tree: exit $?"
if ! git -C $WT apply $D/patch.diff; then echo "PATCH DOES NOT APPLY"; git -C /repo worktree remove --force $WT; exit 2; fi
PYTHONPATH=$WT PYTHONHASHSEED=0 timeout 1500 /venv/bin/python $D/demo.py > /tmp/se_out/$NAME.demo_patched.out 2>&1; echo "demo on patched tree: exit $?"
for c in $CHECKS; do
  VERIF_REPO=$WT timeout 3000 /verif/check $c 2>&1 | grep -E "VIOLATION|KNOWN-FINDING|PASS|FAIL" | cut -c1-200
  python3 - $c <<'PY'
import json, sys
try:
    e = json.load(open("/verif/evidence_other/%s.json" % sys.argv[1]))["coverage"]
    print("   broken:", [b[:200] for b in e["broken"]][:4], "diffs:", e["correspondence_disagreements"])
except Exception as ex:
    print("   (no evidence_other)", ex)
PY
done
if [ -z "${SEED_NO_SUITE:-}" ]; then
(cd $WT && NUMBA_NUM_THREADS=4 timeout 3000 /venv/bin/python -m pytest -q -p no:cacheprovider --timeout=900 --continue-on-collection-errors umap/tests > /tmp/se_out/$NAME.suite.log 2>&1)
tail -1 /tmp/se_out/$NAME.suite.log; grep -E "^FAILED" /tmp/se_out/$NAME.suite.log | cut -c1-120
fi
} > $OUT 2>&1
git -C /repo worktree remove --force $WT
cat $OUT

#!/usr/bin/env python3
"""Refresh the generated tables of DESIGN.md §10 (fix commits, known findings, seeded changes) from the committed data files."""
import json, os, re, subprocess
HERE = os.path.dirname(os.path.dirname(os.path.abspath(__file__)))
p = os.path.join(HERE, "DESIGN.md"); s = open(p).read()
kf = json.load(open(os.path.join(HERE, "known_findings.json")))["findings"]
rows = ["| commit | property | what failed (input) |", "|---|---|---|"]
for f in kf:
    if f["status"] == "fixed":
        rows.append("| %s | %s | %s |" % (f["commit"], f["property"], re.sub(r"^fixed: property=\S+ \S+ ", "", f["summary"]).replace("|", "/")))
s = re.sub(r"<!-- FIXES_TABLE_BEGIN -->.*?<!-- FIXES_TABLE_END -->", lambda _: "<!-- FIXES_TABLE_BEGIN -->\n" + "\n".join(rows) + "\n<!-- FIXES_TABLE_END -->", s, flags=re.S)
kn = ["* **%s** `%s` — %s" % (f["property"], f["signature"], re.sub(r"^known: property=\S+ ", "", f["summary"])) for f in kf if f["status"] == "known"]
s = re.sub(r"<!-- KNOWN_LIST_BEGIN -->.*?<!-- KNOWN_LIST_END -->", lambda _: "<!-- KNOWN_LIST_BEGIN -->\n" + "\n".join(kn) + "\n<!-- KNOWN_LIST_END -->", s, flags=re.S)
open(p, "w").write(s)
subprocess.run(["python3", os.path.join(HERE, "tools", "mkseeded_table.py")])
print("fix commits: %d, known findings: %d" % (len(rows) - 2, len(kn)))
